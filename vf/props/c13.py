"""C13 — file-system and package loaders never read outside their roots.

Monitor (three observations per loader call, all taken while the REAL loader runs):

1. a `sys.addaudithook` recorder for `open` / `os.scandir` / `os.listdir` that is armed only
   for the duration of the call (it also sees the executor threads of the async loaders):
   every file opened must have a real path inside one of the configured search roots
   (reads of the Python installation itself — lazy imports — are ignored);
2. an `Environment.from_string` override that records every (source, path) a loader hands
   to the parser during the call, plus the returned template / the rendered output: the
   text must be the content of a file planted *inside* a root, and must never carry the
   unique marker of a canary file planted outside (parent dir, sibling dirs, scratch root,
   the package directory outside `package_path`, `__init__.py`);
3. names that are absolute, contain a `..` segment or resolve outside every root in an
   independent `normpath` model must end in `TemplateNotFoundError`.

A name that stays inside a root but designates a directory (``, `.`, `sub/`) surfaces
IsADirectoryError / ValueError today; that breaks neither clause and is only counted
(`diag:*`).
"""

from __future__ import annotations

import asyncio
import importlib
import itertools
import os
import random
import shutil
import sys
import sysconfig
import tempfile
from typing import Any

from ..core import REPO_DIR
from ..core import Ctx
from ..core import hhex

ID = "C13"
LEVEL = "exploration"
RULE = (
    "case = (template name, loader configuration, access path, sync|async). Names come "
    "from a path grammar: tokens '/', '.', '..', in-root segments (a, sub, ü), the canary "
    "segment c (exists only OUTSIDE the roots), extensions (.liquid, .txt), backslash, and "
    "four absolute-path tokens (canary file, scratch dir, a file inside the root, the root "
    "itself) — every token string up to 4 tokens is enumerated (all of them against every "
    "loader configuration from Python; up to 3 tokens, and all of them in the thorough "
    "tier, also through every tag and async), seeded-random names up to 7 tokens over a "
    "wider alphabet (percent-encoded and full-width dots, NUL, quotes, '~', sibling and "
    "root directory names) and 'directed' names derived from the relative/absolute path "
    "of every canary from every root (with './', 'sub/../', '//', trailing-separator, "
    "backslash and encoded variants). Configurations: 10 loaders (FileSystemLoader, "
    "CachingFileSystemLoader, PackageLoader over a generated package, ChoiceLoader, "
    "CachingChoiceLoader; one and two search paths; with and without default extension). "
    "Access: env.get_template / get_template_async, and {% include 'N' %}, "
    "{% include var %}, {% render 'N' %}, {% extends 'N' %} rendered sync and async. "
    "distinct = hash of (symbolic name, configuration) — the access paths and sync/async "
    "are repeated evaluations of the case; non-trivial = the name has at least 2 grammar "
    "tokens."
)
ASSUMPTIONS = [
    "CPython's audit events 'open', 'os.scandir', 'os.listdir' are the ground truth for "
    "which files were read; os.stat (existence probes) raises no audit event and is not "
    "observed — the property is about contents returned, not about existence oracles",
    "opens whose real path lies in the Python installation, site-packages or the liquid2 "
    "source tree are lazy imports and are ignored",
    "POSIX path semantics: '/' is the only separator; symlinks inside a root are out of "
    "scope; zip-imported packages (non-filesystem Traversables) are not exercised",
    "template files are plain text so str(template) / rendered output equals file content",
    "scratch tree and fixture package are created under tempfile.mkdtemp() per shard and "
    "removed in a finally block",
]

MARK = "C13CANARY"
PKG = "c13fixpkg"

# ---------------------------------------------------------------------------------------
# audit-hook recorder (installed once per process; a hook cannot be removed)
# ---------------------------------------------------------------------------------------


class _Monitor:
    def __init__(self) -> None:
        self.on = False
        self.events: list[tuple[str, Any]] = []
        self.built: list[tuple[str, str | None]] = []
        self.installed = False

    def install(self) -> None:
        if self.installed:
            return
        self.installed = True
        watched = ("open", "os.scandir", "os.listdir")
        mon = self

        def hook(event: str, args: tuple[Any, ...]) -> None:
            if mon.on and event in watched:
                mon.events.append((event, args[0] if args else None))

        sys.addaudithook(hook)

    def start(self) -> None:
        self.events = []
        self.built = []
        self.on = True

    def stop(self) -> tuple[list[tuple[str, Any]], list[tuple[str, str | None]]]:
        self.on = False
        return self.events, self.built


MON = _Monitor()


def _python_prefixes() -> tuple[str, ...]:
    out = set()
    for k in ("stdlib", "platstdlib", "purelib", "platlib"):
        p = sysconfig.get_paths().get(k)
        if p:
            out.add(os.path.realpath(p))
    for p in (sys.prefix, sys.base_prefix, sys.exec_prefix, sys.base_exec_prefix):
        out.add(os.path.realpath(p))
    out.add(os.path.realpath(REPO_DIR))
    return tuple(sorted(x.rstrip("/") + "/" for x in out))


# ---------------------------------------------------------------------------------------
# scratch tree
# ---------------------------------------------------------------------------------------


class Scratch:
    """
    S/                      c c.liquid c.txt                  canary "abs"
    S/p/                    c c.liquid c.txt                  canary "parent"
    S/p/sib/                c.liquid a.liquid sub/a.liquid    canary "sibling"
    S/p/Ax/                 c.liquid a.liquid                 canary "prefix-sibling"
    S/p/A/   (root)         a a.liquid a.txt index.liquid sub/{a,b}.liquid sub/deep/d.liquid
                            ü/ü.liquid d.d/x.liquid
    S/p/B/   (root)         a.liquid b.liquid b.txt sub/onlyb.liquid
    S/pk/                   c.liquid                          canary "pk-parent"
    S/pk/c13fixpkg/         __init__.py c c.liquid c.txt other/c.liquid   canary "pkg-dir"
    S/pk/c13fixpkg/templates/ (root)  a.liquid a.txt index.liquid sub/a.liquid ü/ü.liquid
    S/pk/c13fixpkg/more/      (root)  a.liquid b.liquid b.txt sub/onlyb.liquid
    """

    def __init__(self, nonce: str):
        self.nonce = nonce
        self.S = os.path.realpath(tempfile.mkdtemp(prefix="vf-c13-"))
        self.canaries: list[tuple[str, str]] = []
        self.inside: dict[str, str] = {}  # abs path -> content
        try:
            self._build()
        except BaseException:
            self.cleanup()
            raise

    def _w(self, rel: str, content: str) -> str:
        p = os.path.join(self.S, rel)
        os.makedirs(os.path.dirname(p), exist_ok=True)
        with open(p, "w", encoding="utf-8") as f:
            f.write(content)
        return p

    def _canary(self, label: str, rel: str, prefix: str = "") -> None:
        p = self._w(rel, f"{prefix}{MARK}:{label}:{self.nonce}:{rel}")
        self.canaries.append((label, p))

    def _in(self, rel: str) -> None:
        p = self._w(rel, f"IN<{rel}>")
        self.inside[p] = f"IN<{rel}>"

    def _build(self) -> None:
        for n in ("c", "c.liquid", "c.txt"):
            self._canary("abs", n)
            self._canary("parent", f"p/{n}")
            self._canary("pkg-dir", f"pk/{PKG}/{n}")
        for n in ("c.liquid", "a.liquid", "sub/a.liquid"):
            self._canary("sibling", f"p/sib/{n}")
        for n in ("c.liquid", "a.liquid"):
            self._canary("prefix-sibling", f"p/Ax/{n}")
        self._canary("pk-parent", "pk/c.liquid")
        self._canary("pkg-dir", f"pk/{PKG}/other/c.liquid")
        self._canary("pkg-init", f"pk/{PKG}/__init__.py", prefix="# ")
        for n in ("a", "a.liquid", "a.txt", "index.liquid", "sub/a.liquid", "sub/b.liquid",
                  "sub/deep/d.liquid", "ü/ü.liquid", "d.d/x.liquid"):
            self._in(f"p/A/{n}")
        for n in ("a.liquid", "b.liquid", "b.txt", "sub/onlyb.liquid"):
            self._in(f"p/B/{n}")
        for n in ("a.liquid", "a.txt", "index.liquid", "sub/a.liquid", "ü/ü.liquid"):
            self._in(f"pk/{PKG}/templates/{n}")
        for n in ("a.liquid", "b.liquid", "b.txt", "sub/onlyb.liquid"):
            self._in(f"pk/{PKG}/more/{n}")
        self.A = os.path.join(self.S, "p", "A")
        self.B = os.path.join(self.S, "p", "B")
        self.PT = os.path.join(self.S, "pk", PKG, "templates")
        self.PM = os.path.join(self.S, "pk", PKG, "more")
        self.pkpath = os.path.join(self.S, "pk")
        sys.modules.pop(PKG, None)
        sys.path.insert(0, self.pkpath)
        importlib.invalidate_caches()

    def cleanup(self) -> None:
        try:
            pk = os.path.join(self.S, "pk")
            while pk in sys.path:
                sys.path.remove(pk)
            for m in [m for m in sys.modules if m == PKG or m.startswith(PKG + ".")]:
                sys.modules.pop(m, None)
        finally:
            shutil.rmtree(self.S, ignore_errors=True)

    def sym(self, s: Any) -> Any:
        """Replace the (random) scratch path by a placeholder so witnesses are stable."""
        if isinstance(s, bytes):
            s = os.fsdecode(s)
        if isinstance(s, str):
            return s.replace(self.S, "${S}")
        return s

    def unsym(self, s: str) -> str:
        return s.replace("${S}", self.S)


# ---------------------------------------------------------------------------------------
# loader configurations
# ---------------------------------------------------------------------------------------


class Cfg:
    def __init__(self, cid: int, desc: str, loader: Any, roots: list[str], exts: list[str | None],
                 env: Any, sc: Scratch):
        self.id = cid
        self.desc = desc
        self.loader = loader
        self.kind = type(loader).__name__
        self.roots = [os.path.realpath(r) for r in roots]
        self.exts = exts  # default extension of each leaf loader (None = none)
        self.env = env
        self.allowed = {
            c for p, c in sc.inside.items()
            if any(p.startswith(r + "/") for r in self.roots)
        }
        self.subst = {
            "<ABSC>": os.path.join(sc.S, "c.liquid"),
            "<ABSS>": sc.S,
            "<ABSIN>": os.path.join(roots[0], "a.liquid"),
            "<ABSROOT>": roots[0],
            "<ROOTNAME>": os.path.basename(roots[0]),
        }
        self.t_include_var = env.from_string("[{% include n %}]")

    def concrete(self, toks: tuple[str, ...]) -> str:
        return "".join(self.subst.get(t, t) for t in toks)


N_CONFIGS = 10


def build_configs(sc: Scratch, only: int | None = None) -> list[Cfg]:
    from pathlib import Path

    from liquid2 import CachingChoiceLoader
    from liquid2 import CachingFileSystemLoader
    from liquid2 import ChoiceLoader
    from liquid2 import Environment
    from liquid2 import FileSystemLoader
    from liquid2 import PackageLoader

    class RecEnv(Environment):
        def from_string(self, source, *a, **kw):  # noqa: ANN001, ANN002, ANN003
            if MON.on:
                p = kw.get("path")
                MON.built.append((source, None if p is None else str(p)))
            return super().from_string(source, *a, **kw)

    A, B, PT, PM = sc.A, sc.B, sc.PT, sc.PM
    table = [
        ("FileSystemLoader(A)",
         lambda: FileSystemLoader(A), [A], [None]),
        ("FileSystemLoader(A + '/', ext='.liquid')",
         lambda: FileSystemLoader(A + "/", ext=".liquid"), [A], [".liquid"]),
        ("FileSystemLoader([A, B], ext='.liquid')",
         lambda: FileSystemLoader([A, B], ext=".liquid"), [A, B], [".liquid"]),
        ("FileSystemLoader([Path(B), A])",
         lambda: FileSystemLoader([Path(B), A]), [B, A], [None]),
        ("CachingFileSystemLoader(A, ext='.liquid')",
         lambda: CachingFileSystemLoader(A, ext=".liquid"), [A], [".liquid"]),
        ("CachingFileSystemLoader([A, B], auto_reload=False, capacity=50)",
         lambda: CachingFileSystemLoader([A, B], auto_reload=False, capacity=50), [A, B], [None]),
        ("PackageLoader(pkg)",
         lambda: PackageLoader(PKG), [PT], [".liquid"]),
        ("PackageLoader(pkg, package_path=['templates', 'more'], ext='.txt')",
         lambda: PackageLoader(PKG, package_path=["templates", "more"], ext=".txt"),
         [PT, PM], [".txt"]),
        ("ChoiceLoader([FileSystemLoader(A), PackageLoader(pkg)])",
         lambda: ChoiceLoader([FileSystemLoader(A), PackageLoader(PKG)]),
         [A, PT], [None, ".liquid"]),
        ("CachingChoiceLoader([FileSystemLoader(B, ext='.liquid'), FileSystemLoader(A)])",
         lambda: CachingChoiceLoader([FileSystemLoader(B, ext=".liquid"), FileSystemLoader(A)]),
         [B, A], [".liquid", None]),
    ]
    assert len(table) == N_CONFIGS
    out = []
    for i, (desc, mk, roots, exts) in enumerate(table):
        if only is not None and i != only:
            continue
        loader = mk()
        out.append(Cfg(i, desc, loader, roots, exts, RecEnv(loader=loader), sc))
    return out


# ---------------------------------------------------------------------------------------
# name grammar
# ---------------------------------------------------------------------------------------

CORE = ["/", ".", "..", "a", "sub", "c", ".liquid", ".txt", "ü", "\\",
        "<ABSC>", "<ABSS>", "<ABSIN>", "<ABSROOT>"]
EXTRA = ["sib", "<ROOTNAME>", "Ax", "deep", "b", "index", "d.d", ".html", "//", "...",
         "%2e%2e", "%2f", "%5c", "．．", "‥", "／", "\x00", " ", "~", "*", "'", '"', "$",
         "\ud800", "file://", "\n", "other", "__init__.py", "c.liquid", "a.liquid"]
FULL = CORE + EXTRA
THOROUGH_CORE = CORE + ["sib", "<ROOTNAME>", "//"]

ACCESS = ["py", "include-lit", "include-var", "render-lit", "extends-lit"]
MODES = ["sync", "async"]
ALL_AM = [(a, m) for a in ACCESS for m in MODES]

_UNSAFE_LIT = set("'\"\\$\n\r\x00{}")


def literal_safe(name: str) -> bool:
    for ch in name:
        if ch in _UNSAFE_LIT or ord(ch) < 32 or 0xD800 <= ord(ch) <= 0xDFFF:
            return False
    return True


def shape_of(name: str) -> str:
    if name.startswith("/"):
        return "absolute"
    if ".." in name.split("/"):
        return "dotdot"
    return "other"


def model_outside(name: str, cfg: Cfg) -> bool:
    """Independent model: does the name (with or without a default extension) designate
    a location outside every root under plain POSIX joining and normalisation?"""
    if "\x00" in name:
        return False
    cands = [name]
    for e in cfg.exts:
        if e:
            cands.append(name.rstrip("/") + e)
    for r in cfg.roots:
        for c in cands:
            p = os.path.normpath(os.path.join(r, c))
            if p == "//" or p.startswith("//"):
                p = p[1:]
            if not (p == r or p.startswith(r + "/")):
                return True
    return False


def exhaustive_names(alphabet: list[str], maxlen: int):
    """Yield (index, token tuple) for every distinct token string of <= maxlen tokens."""
    seen: set[str] = set()
    idx = 0
    for ln in range(0, maxlen + 1):
        for tup in itertools.product(alphabet, repeat=ln):
            s = "".join(tup)
            if s in seen:
                continue
            seen.add(s)
            yield idx, tup
            idx += 1


def count_exhaustive(alphabet: list[str], maxlen: int) -> int:
    return sum(1 for _ in exhaustive_names(alphabet, maxlen))


LEADS = ["", "", "/", "//", "///", "./", "../", "../../", "<ABSS>/", "<ABSROOT>/",
         "<ABSROOT>/../", "<ABSS>/p/", "/../", "\\", "..\\", "~/", " /", "file://"]
SEGS = ["a", "sub", "c", "ü", "sib", "<ROOTNAME>", "..", ".", "deep", "a.liquid", "Ax", "b",
        "index", "d.d", "p", "other", "c.liquid", "c.txt", "...", "％2e％2e", "%2e%2e", "‥",
        "．．", ".. ", " ..", "..\x00", ""]
SEPS = ["/", "/", "/", "//", "/./", "\\", "/../", "%2f", "／"]
EXTS = ["", "", ".liquid", ".txt", ".", ".html", ".liquid/", ".liquid/."]
TRAILS = ["", "", "", "/", "//", "/.", "\x00", " ", "/.."]


def random_name(rng: random.Random) -> tuple[str, ...]:
    if rng.random() < 0.4:
        n = rng.randint(1, 7)
        return tuple(rng.choice(FULL) for _ in range(n))
    toks = []
    lead = rng.choice(LEADS)
    if lead:
        toks.append(lead)
    k = rng.randint(1, 3)
    for j in range(k):
        if j:
            toks.append(rng.choice(SEPS))
        toks.append(rng.choice(SEGS))
    e = rng.choice(EXTS)
    if e:
        toks.append(e)
    t = rng.choice(TRAILS)
    if t and len(toks) < 7:
        toks.append(t)
    return tuple(x for x in toks[:7] if x != "")


def directed_names(sc: Scratch, cfg: Cfg) -> list[str]:
    """Concrete names aimed at every canary from every root of the configuration."""
    out: list[str] = []
    seen: set[str] = set()

    def add(s: str) -> None:
        if s not in seen:
            seen.add(s)
            out.append(s)

    def enc(rel: str) -> list[str]:
        v = [rel, rel.replace("/", "\\"), rel.replace("..", "%2e%2e"),
             rel.replace("/", "%2f"), rel.replace("..", "．．"), rel.replace("..", "‥"),
             rel.replace("/", "／"), rel.replace("..", ".. "), rel.replace("..", "..\x00"),
             rel.replace("../", "..//"), rel.replace("../", ".././"), rel.replace("/", "//")]
        return v

    for _label, cpath in sc.canaries:
        noext = cpath[: -len(os.path.splitext(cpath)[1])] if os.path.splitext(cpath)[1] else cpath
        for target in (cpath, noext):
            for r in cfg.roots:
                rel = os.path.relpath(target, r)
                for v in enc(rel):
                    add(v)
                for pre in ("./", "sub/../", "sub/deep/../../", "sub/./../", "a.liquid/../",
                            "nonexistent/../", "sub//..//", "ü/../", "/", "//", "\\"):
                    add(pre + rel)
                add(rel + "/")
                add(rel + "/.")
                add(rel + "\x00")
                add(rel + "\x00.liquid")
                # through the root's own absolute path
                add(r + "/" + rel)
                add(r + "/sub/../" + rel)
                add(r.lstrip("/") + "/" + rel)
            for v in (target, "/" + target, "//" + target, target + "/", target + "/.",
                      target.replace("/", "//"), target.replace("/", "/./"),
                      "/.." + target, "/../.." + target, "." + target, ".." + target,
                      " " + target, "file://" + target, target.lstrip("/"),
                      target.replace("/", "\\"), "~" + target, "sub/" + target,
                      target + "\x00", os.path.dirname(target) + "/./" + os.path.basename(target),
                      os.path.dirname(target) + "/x/../" + os.path.basename(target)):
                add(v)
    # absolute / dotdot names that resolve INSIDE a root (must still be refused)
    for r in cfg.roots:
        for n in ("a.liquid", "a", "sub/a.liquid", "index.liquid", "", "sub", "b.txt", "b"):
            add(r + "/" + n)
            add("/" + r + "/" + n)
            add("sub/../" + n)
            add("../" + os.path.basename(r) + "/" + n)
            add("./../" + os.path.basename(r) + "/" + n)
            add("sub/deep/../../" + n)
            add("sub/deep/../" + n)
    for n in ("/", "//", "/.", "/..", "/../", "..", "../", "../.", "../..", "sub/..", "sub/../",
              "sub/../..", "./..", "a/..", "a.liquid/..", "/dev/null", "//dev/null", "/dev/../dev/null",
              "/etc/..", "//etc/..", "/etc", "//etc/", "../../../../../../../../dev/null",
              "sub/../../../../../../../../../dev/null", "/tmp", "/tmp/",
              "/nonexistent/x.liquid", "/\x00", "..\x00", "../\x00"):
        add(n)
    return out


# ---------------------------------------------------------------------------------------
# one observed call
# ---------------------------------------------------------------------------------------


class Obs:
    __slots__ = ("ok", "exc", "excmsg", "texts", "paths", "events", "built")

    def __init__(self) -> None:
        self.ok = False
        self.exc: str | None = None
        self.excmsg = ""
        self.texts: list[tuple[str, str]] = []  # (where, text)
        self.paths: list[tuple[str, str]] = []  # (where, path)
        self.events: list[tuple[str, Any]] = []
        self.built: list[tuple[str, str | None]] = []


class Runner:
    def __init__(self, ctx: Ctx, sc: Scratch, cfgs: list[Cfg]):
        from liquid2.exceptions import LiquidError
        from liquid2.exceptions import TemplateNotFoundError

        self.ctx = ctx
        self.sc = sc
        self.cfgs = cfgs
        self.TNF = TemplateNotFoundError
        self.LiquidError = LiquidError
        self.ignore = _python_prefixes()
        self._rp: dict[str, str] = {}
        self.verbose = False
        MON.install()

    # -- preparing the call ------------------------------------------------------------
    def _outer(self, cfg: Cfg, access: str, name: str):  # noqa: ANN202
        """Return (template or None, render data)."""
        if access == "py":
            return None, None
        if access == "include-var":
            return cfg.t_include_var, {"n": name}
        tag = access.split("-")[0]
        src = f"{{% extends '{name}' %}}" if tag == "extends" else f"[{{% {tag} '{name}' %}}]"
        try:
            return cfg.env.from_string(src), {}
        except self.LiquidError:
            self.ctx.count("outer_parse_failed")
            return False, None

    def _finish(self, ob: Obs, access: str, result: Any) -> None:
        ob.ok = True
        if access == "py":
            ob.texts.append(("str(template)", str(result)))
            if result.path is not None:
                ob.paths.append(("template.path", str(result.path)))
        elif access.startswith("extends"):
            ob.texts.append(("output", result))
        else:
            inner = result[1:-1] if result.startswith("[") and result.endswith("]") else result
            ob.texts.append(("output", inner))

    def call_sync(self, cfg: Cfg, access: str, name: str) -> Obs | None:
        outer, data = self._outer(cfg, access, name)
        if outer is False:
            return None
        ob = Obs()
        MON.start()
        try:
            if outer is None:
                res = cfg.env.get_template(name)
            else:
                res = outer.render(**data)
            ob.events, ob.built = MON.stop()
            self._finish(ob, access, res)
        except Exception as e:  # noqa: BLE001
            ob.events, ob.built = MON.stop()
            ob.exc = type(e).__name__
            ob.excmsg = _safe_str(e)
        finally:
            MON.on = False
        return ob

    async def call_async(self, cfg: Cfg, access: str, name: str) -> Obs | None:
        outer, data = self._outer(cfg, access, name)
        if outer is False:
            return None
        ob = Obs()
        MON.start()
        try:
            if outer is None:
                res = await cfg.env.get_template_async(name)
            else:
                res = await outer.render_async(**data)
            ob.events, ob.built = MON.stop()
            self._finish(ob, access, res)
        except Exception as e:  # noqa: BLE001
            ob.events, ob.built = MON.stop()
            ob.exc = type(e).__name__
            ob.excmsg = _safe_str(e)
        finally:
            MON.on = False
        return ob

    # -- the oracle -------------------------------------------------------------------
    def realpath(self, p: str) -> str:
        r = self._rp.get(p)
        if r is None:
            try:
                r = os.path.realpath(p)
            except (ValueError, OSError):
                r = p
            if len(self._rp) > 50_000:
                self._rp.clear()
            self._rp[p] = r
        return r

    def inside(self, rp: str, cfg: Cfg) -> bool:
        return any(rp == r or rp.startswith(r + "/") for r in cfg.roots)

    def judge(self, cfg: Cfg, access: str, mode: str, name: str, ob: Obs,
              ntoks: int = 2, symbolic: str | None = None) -> list[str]:
        ctx = self.ctx
        sc = self.sc
        ctx.ev()
        ctx.count("loader_calls")
        shape = shape_of(name)
        outside = model_outside(name, cfg)
        must_fail = shape != "other" or outside
        fails: dict[str, Any] = {}

        # clause 1: what was opened
        for kind, p in ob.events:
            if isinstance(p, int):
                ctx.count("audit_fd_events")
                continue
            if isinstance(p, bytes):
                p = os.fsdecode(p)
            p = str(p)
            rp = self.realpath(p)
            if any((rp + "/").startswith(pre) for pre in self.ignore):
                ctx.count("audit_python_import_reads_ignored")
                continue
            ctx.count("audit_open_events")
            if self.inside(rp, cfg):
                ctx.count("audit_open_inside_root")
            else:
                fails.setdefault("opened-outside-root", []).append(
                    {"audit_event": kind, "path": sc.sym(p)})
        for where, p in ob.paths + [("from_string(path=)", b[1]) for b in ob.built if b[1]]:
            if not self.inside(self.realpath(p), cfg):
                fails.setdefault("opened-outside-root", []).append({where: sc.sym(p)})

        # clause 2: what came back
        for where, text in ob.texts + [("from_string(source)", b[0]) for b in ob.built]:
            if MARK in text:
                fails.setdefault("canary-returned", []).append({where: sc.sym(text[:120])})
            elif text not in cfg.allowed:
                fails.setdefault("foreign-content-returned", []).append({where: sc.sym(text[:120])})
            else:
                ctx.count("content_checks_inside")

        # clause 3: escaping names must fail with TemplateNotFoundError
        if must_fail:
            ctx.count("must_fail_checked")
            ctx.count(f"must_fail_shape:{shape}")
            if ob.ok:
                if "canary-returned" not in fails and "foreign-content-returned" not in fails:
                    fails["served"] = [{"texts": [sc.sym(t[:80]) for _, t in ob.texts]}]
            elif ob.exc != "TemplateNotFoundError":
                fails[f"wrong-error-type:{ob.exc}"] = [{"message": sc.sym(ob.excmsg[:160])}]
            else:
                ctx.count("must_fail_ok")
        else:
            if ob.ok:
                ctx.count("served_inside")
            elif ob.exc == "TemplateNotFoundError":
                ctx.count("not_found_inside")
            else:
                ctx.count(f"diag:{ob.exc}")  # e.g. IsADirectoryError for '', '.', 'sub/'
                ctx.seen("diag_non_escaping_errors", f"{ob.exc}@{cfg.kind}")
        ctx.count("outcome:" + ("ok" if ob.ok else str(ob.exc)))
        ctx.seen("loader_kinds", cfg.kind)
        ctx.seen("access_paths", f"{access}/{mode}")
        ctx.seen("configs", cfg.desc)
        if ntoks >= 2:
            ctx.nt(symbolic if symbolic is not None else sc.sym(name), cfg.id)

        keys = []
        for clause, details in fails.items():
            key = f"{shape}-name:{clause}@{cfg.kind}"
            keys.append(key)
            what = {
                "opened-outside-root": "a file outside every search root was opened / returned as template path",
                "canary-returned": "content of a canary file planted outside the roots was returned as template source",
                "foreign-content-returned": "returned source is not the content of any file inside the roots",
                "served": "a name that is absolute / has a '..' segment / resolves outside was served instead of TemplateNotFoundError",
            }.get(clause, "escaping name failed with " + clause.split(":", 1)[-1]
                  + " instead of TemplateNotFoundError")
            ctx.violation(key, f"{cfg.kind}: {what} ({shape} name)", {
                "cfg": cfg.id, "cfg_desc": cfg.desc, "access": access, "mode": mode,
                "name": sc.sym(name), "shape": shape, "model_resolves_outside": outside,
                "outcome": "ok" if ob.ok else ob.exc, "clause": clause,
                "details": details[:4],
                "audit_events": [[k, sc.sym(p)] for k, p in ob.events[:6]],
            })
        if self.verbose:
            print(f"  cfg={cfg.id} {cfg.desc}\n  access={access}/{mode} name={sc.sym(name)!r} "
                  f"shape={shape} model_outside={outside} must_fail={must_fail}")
            print(f"  outcome={'ok' if ob.ok else ob.exc} {sc.sym(ob.excmsg)[:100]!r}")
            print(f"  audit events={[(k, sc.sym(p)) for k, p in ob.events]}")
            print(f"  parsed={[(sc.sym(s[:60]), sc.sym(p)) for s, p in ob.built]}")
            print(f"  texts={[(w, sc.sym(t[:60])) for w, t in ob.texts]} paths={[(w, sc.sym(p)) for w, p in ob.paths]}")
            print(f"  violated clauses={keys}")
        return keys

    # -- running a batch: list of (cfg, access, mode, name, ntoks, symbolic) -------------
    def run_batch(self, jobs: list[tuple[Cfg, str, str, str, int, str | None]]) -> None:
        asyncs = []
        for job in jobs:
            cfg, access, mode, name, ntoks, symb = job
            if access.endswith("-lit") and not literal_safe(name):
                self.ctx.count("literal_unsafe_skipped")
                continue
            if mode == "sync":
                ob = self.call_sync(cfg, access, name)
                if ob is not None:
                    self.judge(cfg, access, mode, name, ob, ntoks, symb)
            else:
                asyncs.append(job)
        if asyncs:
            async def go() -> None:
                for cfg, access, mode, name, ntoks, symb in asyncs:
                    ob = await self.call_async(cfg, access, name)
                    if ob is not None:
                        self.judge(cfg, access, mode, name, ob, ntoks, symb)

            asyncio.run(go())
            self.ctx.count("asyncio_runs")

    def selfcheck(self) -> None:
        """Positive control: the recorder must see an open performed in an executor
        thread and classify a canary as outside every root."""
        cfg = self.cfgs[0]
        canary = self.sc.canaries[0][1]

        def rd() -> str:
            with open(canary, encoding="utf-8") as f:
                return f.read()

        async def go() -> str:
            return await asyncio.get_running_loop().run_in_executor(None, rd)

        for how in ("sync", "thread"):
            MON.start()
            try:
                text = rd() if how == "sync" else asyncio.run(go())
            finally:
                ev, _ = MON.stop()
            seen = [p for k, p in ev if k == "open" and isinstance(p, str)
                    and self.realpath(p) == canary]
            if seen and MARK in text and not self.inside(self.realpath(canary), cfg) \
                    and not any((canary + "/").startswith(pre) for pre in self.ignore):
                self.ctx.count("selfcheck_ok")
            else:
                self.ctx.note(f"selfcheck failed ({how}): events={ev[:5]!r}")


def _safe_str(e: BaseException) -> str:
    try:
        return str(e)
    except Exception as e2:  # noqa: BLE001
        return f"<str() raised {type(e2).__name__}>"


# ---------------------------------------------------------------------------------------
# shards
# ---------------------------------------------------------------------------------------


def shards(tier: str, seed: int) -> list[dict[str, Any]]:
    specs: list[dict[str, Any]] = []
    ne = 10 if tier == "quick" else 20
    for i in range(ne):
        specs.append({"kind": "exh", "i": i, "n": ne})
    nr = 4 if tier == "quick" else 10
    for i in range(nr):
        specs.append({"kind": "rand", "i": i, "n": nr})
    nd = 2 if tier == "quick" else 2
    for i in range(nd):
        specs.append({"kind": "directed", "i": i, "n": nd})
    return specs


def floors(tier: str) -> dict[str, int]:
    k = 1 if tier == "quick" else 10
    return {
        # calibrated at ~40-50 % of what the unchanged tree yields (quick: 977 k calls,
        # 438 k cases; thorough: 12.2 M calls, 1.36 M cases); the audit / content floors
        # are below what remains once absolute names are refused (6.4 k / 73 k opens)
        "evaluations": 400_000 * k,
        "distinct_nontrivial": 200_000 if tier == "quick" else 700_000,
        "loader_calls": 400_000 * k,
        "audit_open_events": 2_000 * k,
        "audit_open_inside_root": 2_000 * k,
        "content_checks_inside": 2_000 * k,
        "must_fail_checked": 200_000 * k,
        "must_fail_shape:dotdot": 50_000 * k,
        "must_fail_shape:absolute": 150_000 * k,
        "served_inside": 1_000 * k,
        "max:canaries_planted": 4,
        "selfcheck_ok": 2,
        "set:loader_kinds": 5,
        "set:access_paths": 10,
        "set:configs": N_CONFIGS,
    }


def _exh_params(tier: str) -> tuple[list[str], int, int]:
    """alphabet, max tokens, max tokens for which every access path is exercised."""
    if tier == "quick":
        return CORE, 4, 3
    return THOROUGH_CORE, 4, 4


def exhaustive(tier: str, merged: dict[str, Any]) -> bool:
    alphabet, maxlen, _ = _exh_params(tier)
    want = count_exhaustive(alphabet, maxlen)
    return (merged["counters"].get("exh_names_done", 0) == want
            and not merged.get("truncated") and not merged.get("failed"))


def run_shard(spec: dict[str, Any], ctx: Ctx) -> None:
    sc = Scratch(hhex(spec["seed"], "c13"))
    try:
        cfgs = build_configs(sc)
        r = Runner(ctx, sc, cfgs)
        ctx.mx("max:canaries_planted", len(sc.canaries))
        r.selfcheck()
        kind = spec["kind"]
        if kind == "exh":
            _exh(r, spec, ctx)
        elif kind == "rand":
            _rand(r, spec, ctx)
        elif kind == "directed":
            _directed(r, spec, ctx)
    finally:
        MON.on = False
        sc.cleanup()


CHUNK = 40


def _exh(r: Runner, spec: dict[str, Any], ctx: Ctx) -> None:
    alphabet, maxlen, full_upto = _exh_params(spec["tier"])
    jobs: list[Any] = []
    nchunk = 0
    last = None
    for idx, toks in exhaustive_names(alphabet, maxlen):
        if idx % spec["n"] != spec["i"]:
            continue
        symb = "".join(toks)
        nt = len(toks)
        for cfg in r.cfgs:
            name = cfg.concrete(toks)
            if nt <= full_upto:
                for a, m in ALL_AM:
                    jobs.append((cfg, a, m, name, nt, symb))
            else:
                jobs.append((cfg, "py", "sync", name, nt, symb))
        if nt > full_upto:
            # one further (configuration, access path) per name, rotating
            k = idx // spec["n"]
            cfg = r.cfgs[k % len(r.cfgs)]
            a, m = ALL_AM[1 + (k // len(r.cfgs)) % (len(ALL_AM) - 1)]
            jobs.append((cfg, a, m, cfg.concrete(toks), nt, symb))
        ctx.count("exh_names_done")
        ctx.mx("max:exh_tokens", nt)
        last = symb
        nchunk += 1
        if nchunk >= CHUNK:
            r.run_batch(jobs)
            jobs = []
            nchunk = 0
            ctx.check_deadline()
    r.run_batch(jobs)
    ctx.sample({"kind": "exhaustive", "name": last, "alphabet": alphabet, "max_tokens": maxlen})


def _rand(r: Runner, spec: dict[str, Any], ctx: Ctx) -> None:
    rng = random.Random(f"{spec['seed']}:rand:{spec['i']}")
    total = 2400 if spec["tier"] == "quick" else 60_000
    n = total // spec["n"]
    jobs: list[Any] = []
    last = None
    for j in range(n):
        toks = random_name(rng)
        symb = "".join(toks)
        ctx.mx("max:rand_tokens", len(toks))
        for cfg in r.cfgs:
            name = cfg.concrete(toks)
            for a, m in ALL_AM:
                jobs.append((cfg, a, m, name, len(toks), symb))
        ctx.count("rand_names_done")
        last = symb
        if (j + 1) % CHUNK == 0:
            r.run_batch(jobs)
            jobs = []
            ctx.check_deadline()
    r.run_batch(jobs)
    ctx.sample({"kind": "random", "name": last})


def _directed(r: Runner, spec: dict[str, Any], ctx: Ctx) -> None:
    last = None
    for cfg in r.cfgs:
        if cfg.id % spec["n"] != spec["i"]:
            continue
        jobs: list[Any] = []
        for j, name in enumerate(directed_names(r.sc, cfg)):
            for a, m in ALL_AM:
                jobs.append((cfg, a, m, name, 2, None))
            ctx.count("directed_names_done")
            last = name
            if (j + 1) % CHUNK == 0:
                r.run_batch(jobs)
                jobs = []
                ctx.check_deadline()
        r.run_batch(jobs)
    if last is not None:
        ctx.sample({"kind": "directed", "name": r.sc.sym(last)})


# ---------------------------------------------------------------------------------------
# replay
# ---------------------------------------------------------------------------------------


def replay(wit: dict[str, Any], ctx: Ctx) -> None:
    sc = Scratch(hhex(ctx.seed, "c13"))
    try:
        cfg = build_configs(sc, only=int(wit["cfg"]))[0]
        r = Runner(ctx, sc, [cfg])
        r.verbose = True
        name = sc.unsym(wit["name"])
        access, mode = wit["access"], wit["mode"]
        print(f"replay C13: scratch={sc.S} (removed afterwards); canaries planted={len(sc.canaries)}")
        if mode == "sync":
            ob = r.call_sync(cfg, access, name)
            keys = r.judge(cfg, access, mode, name, ob) if ob is not None else []
        else:
            async def go() -> list[str]:
                ob = await r.call_async(cfg, access, name)
                return r.judge(cfg, access, mode, name, ob) if ob is not None else []

            keys = asyncio.run(go())
        print(f"replay C13: keys={keys}")
    finally:
        MON.on = False
        sc.cleanup()
