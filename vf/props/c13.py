"""C13 — file-system and package loaders never read outside their roots.

Monitor (three observations per loader call, all taken while the REAL loader runs):

1. a `sys.addaudithook` recorder for `open` / `os.scandir` / `os.listdir` that is armed only
   for the duration of the call (it also sees the executor threads of the async loaders):
   every file opened must have a real path inside one of the configured search roots
   (reads of the Python installation itself — lazy imports — are ignored);
2. an `Environment.from_string` override that records every (source, path) a loader hands
   to the parser during the call, plus the returned template / the rendered output: the
   text must be the content of a file planted *inside* a root, and must never carry the
   unique marker of a canary file planted outside (parent dir, sibling dirs, scratch root,
   the package directory outside `package_path`, `__init__.py`);
3. names that are absolute, contain a `..` segment or resolve outside every root in an
   independent `normpath` model must end in `TemplateNotFoundError`; so must names for which
   nothing exists at <root>/<name>[<ext>] under plain joining (`~user`, `$HOME`, globs ...):
   any other exception class is a violation.

Root side: a separate shard kind enumerates spellings of the search directory itself (relative,
`.`/`..`, doubled/trailing separators, through directory symlinks, symlinked roots, str / Path /
list) and holds the loader to realpath(spelling) as the OS resolves it; violation keys of that
family carry a `/root:<shape>` suffix (plain, dotdot, symlink, symlink+dotdot,
dotdot-after-symlink).

The shard process runs with its cwd inside the sandbox (so search paths `.`, ``, `Path()`,
`templates` ... are real roots) and with HOME pointing at a sandbox directory full of canaries
(so any `~` expansion is visible to the audit hook and the content oracle).

File-parent access paths: hostile names are also requested by tags that execute inside
templates loaded BY NAME from the loader under test (`context.template.path` set): launcher
files in the root, in `sub/`, `sub/deep/`, nested include chains and both ends of an extends
chain, plus per-call written files for the literal-only tags.  The launcher is loaded before
the observation window opens; only the hostile load happens inside it.

A name that stays inside a root but designates a directory (``, `.`, `sub/`) surfaces
IsADirectoryError / ValueError today; that breaks neither clause and is only counted
(`diag:*`).
"""

from __future__ import annotations

import asyncio
import importlib
import itertools
import os
import random
import re
import shutil
import sys
import sysconfig
import tempfile
from typing import Any

from ..core import REPO_DIR
from ..core import Ctx
from ..core import hhex

ID = "C13"
LEVEL = "exploration"
RULE = (
    "case = (template name, loader configuration, access path, sync|async). Names come "
    "from a path grammar and are enumerated in two families. CORE (15 tokens): '/', '.', "
    "'..', in-root segments (a, sub, ü), the canary segment c (exists only OUTSIDE the "
    "roots), '.liquid', '.txt', backslash, '~', and four absolute-path tokens (canary file, "
    "scratch dir, a file inside the root, the root itself) — every distinct token string of "
    "up to 4 tokens. HOME (17 tokens): '/', '.', '..', a, c, '.liquid', '~', '~root' "
    "(existing account), '~c13-no-such-user', '$HOME', '${HOME}', '%HOME%', '~+', '~-', "
    "'*', '?', '[a]' — every token string of up to 3 tokens (4 in thorough), i.e. each "
    "spelling as a segment at every position. Every enumerated name meets every one of the "
    "22 loader configurations at least through env.get_template; names of up to 2 tokens "
    "(3 in thorough) meet every configuration through all 10 access paths; longer names "
    "meet rotating subsets of the access paths (counters exh_scheme:* give the exact "
    "fan-out). Plus seeded-random names of up to 7 tokens over a wider alphabet "
    "(percent-encoded and full-width dots, NUL, quotes, glob and environment-variable "
    "characters, sibling and root directory names) and 'directed' names derived from the "
    "relative/absolute path of every canary from every root ('./', 'sub/../', '//', "
    "trailing separator, backslash and encoded variants) and from every spelling of the "
    "home directory for the canaries planted below $HOME. Configurations: "
    "FileSystemLoader, CachingFileSystemLoader, PackageLoader over a generated package, "
    "ChoiceLoader, CachingChoiceLoader; one and two search paths; with and without default "
    "extension; search paths absolute and RELATIVE TO THE PROCESS CWD ('.', '', Path(), "
    "'./', 'templates', './templates', 'templates/../templates', alone, in lists and under "
    "the choice/caching loaders) with the shard's cwd set to a sandbox site directory and "
    "HOME/USERPROFILE set to a sandbox directory outside every root that holds canaries. "
    "ROOT SIDE: a further family enumerates spellings of ONE search directory in a sandbox "
    "with directory symlinks (site/app -> ../rel/42/app, site/tl -> ../rel/42/templates, "
    "site/cur -> ../rel/42): every segment sequence of up to 3 segments over {., .., app, "
    "tl, cur, templates, sub} and every 4-segment sequence over {.., app, cur, templates, "
    "42} (1024 sequences; those the OS resolves to a sandbox directory are kept), each "
    "relative to the cwd as str and in rotating forms (./, absolute, doubled and trailing "
    "separators, '/.', via ../site/, str vs Path) under FileSystemLoader (with/without "
    "ext, in a list after a missing directory, in a list before another root), "
    "CachingFileSystemLoader, ChoiceLoader and CachingChoiceLoader, asked for 16 ordinary "
    "and must-fail names. The oracle root is os.path.realpath(spelling) (symlinks resolved "
    "before '..', as the OS does); every directory a lexical or otherwise wrong resolution "
    "could reach holds the same file names with unique contents. "
    "Access: env.get_template / get_template_async, and {% include 'N' %}, "
    "{% include var %}, {% render 'N' %}, {% extends 'N' %} rendered sync and async from "
    "env.from_string templates (10 paths), and 24 FILE-PARENT paths in which the requesting "
    "tag runs in a template that was itself loaded BY NAME from the same loader: launcher "
    "files planted in every root ([{% include n %}] in the root, in sub/ and in sub/deep/; "
    "a nested include chain root -> sub -> sub/deep; the child block and the parent of an "
    "extends chain) and per-call written files holding {% include|render|extends 'N' %} in "
    "the root and in sub/ — sync and async; directed names also aim at every canary "
    "relative to each launcher's directory. Quick: names of up to 2 tokens meet the 12 "
    "launcher paths on every configuration, longer / random / directed names one rotating "
    "file-parent path; thorough: all 24 wherever 'full' applies. "
    "distinct = hash of (symbolic name, configuration) — the access paths and sync/async "
    "are repeated evaluations of the case; non-trivial = the name has at least 2 grammar "
    "tokens."
)
ASSUMPTIONS = [
    "CPython's audit events 'open', 'os.scandir', 'os.listdir' are the ground truth for "
    "which files were read; os.stat (existence probes) raises no audit event and is not "
    "observed — the property is about contents returned, not about existence oracles",
    "opens whose real path lies in the Python installation, site-packages or the liquid2 "
    "source tree, and os.listdir of a sys.path entry (import path finder), are lazy "
    "imports and are ignored",
    "POSIX path semantics: '/' is the only separator; symlinks inside a root are out of "
    "scope; zip-imported packages (non-filesystem Traversables) are not exercised",
    "template files are plain text so str(template) / rendered output equals file content",
    "scratch tree and fixture package are created under tempfile.mkdtemp() per shard and "
    "removed in a finally block; the shard process chdir()s into the sandbox and overrides "
    "HOME / USERPROFILE for its lifetime (restored in the same finally block)",
    "a name for which nothing exists at <root>/<name>[<default ext>] under plain joining "
    "(no expansion of '~', variables or globs) does not resolve inside a root, so the only "
    "admissible failure is TemplateNotFoundError; names that designate an existing "
    "directory or the root itself may still surface IsADirectoryError / ValueError "
    "(diagnostic only)",
    "'~root' is assumed to be an existing account and '~c13-no-such-user' a missing one",
    "symlinks appear only in search-path spellings (root side); no symlink is planted "
    "inside a root that a generated template name could traverse — a link located inside "
    "a search directory is out of scope (DESIGN.md C13 L)",
    "a name with a component longer than NAME_MAX raises OSError(ENAMETOOLONG) today; it "
    "resolves neither inside nor outside a root and nothing is read: diagnostic only",
]

MARK = "C13CANARY"
ROOT_FILES = ("a", "a.liquid", "a.txt", "index.liquid", "sub/a.liquid")
# "launcher" templates planted inside every root and loaded BY NAME: the tag that requests
# the hostile name then runs in a template that has a path (root dir, sub-directory, nested
# include chain, child and parent of an extends chain)
LAUNCHERS = {
    "t_inc.liquid": "[{% include n %}]",
    "sub/t_inc.liquid": "[{% include n %}]",
    "sub/deep/t_inc.liquid": "[{% include n %}]",
    "t_chain.liquid": "{% include 'sub/t_mid.liquid' %}",
    "sub/t_mid.liquid": "{% include 'sub/deep/t_inc.liquid' %}",
    "t_child.liquid": "{% extends 'sub/t_base.liquid' %}{% block b %}[{% include n %}]{% endblock %}",
    "sub/t_base.liquid": "{% block b %}{% endblock %}",
    "t_child2.liquid": "{% extends 'sub/t_base2.liquid' %}",
    "sub/t_base2.liquid": "[{% include n %}]",
}
LAUNCHER_ROOTS = ("p/A", "p/B", "w/site", "w/site/templates", f"pk/{'c13fixpkg'}/templates",
                  f"pk/{'c13fixpkg'}/more")
STATIC_FILE_ACCESS = {  # access path -> launcher loaded by name
    "file-include@root": "t_inc.liquid",
    "file-include@sub": "sub/t_inc.liquid",
    "file-include@sub/deep": "sub/deep/t_inc.liquid",
    "file-include-chain": "t_chain.liquid",
    "file-extends-child-block": "t_child.liquid",
    "file-extends-parent": "t_child2.liquid",
}
DYN_FILE_ACCESS = [f"filelit-{tag}@{where}" for tag in ("include", "render", "extends")
                   for where in ("root", "sub")]
PKG = "c13fixpkg"

# ---------------------------------------------------------------------------------------
# audit-hook recorder (installed once per process; a hook cannot be removed)
# ---------------------------------------------------------------------------------------


class _Monitor:
    def __init__(self) -> None:
        self.on = False
        self.events: list[tuple[str, Any]] = []
        self.built: list[tuple[str, str | None]] = []
        self.installed = False

    def install(self) -> None:
        if self.installed:
            return
        self.installed = True
        watched = ("open", "os.scandir", "os.listdir")
        mon = self

        def hook(event: str, args: tuple[Any, ...]) -> None:
            if mon.on and event in watched:
                mon.events.append((event, args[0] if args else None))

        sys.addaudithook(hook)

    def start(self) -> None:
        self.events = []
        self.built = []
        self.on = True

    def stop(self) -> tuple[list[tuple[str, Any]], list[tuple[str, str | None]]]:
        self.on = False
        return self.events, self.built


MON = _Monitor()


def _python_prefixes() -> tuple[str, ...]:
    out = set()
    for k in ("stdlib", "platstdlib", "purelib", "platlib"):
        p = sysconfig.get_paths().get(k)
        if p:
            out.add(os.path.realpath(p))
    for p in (sys.prefix, sys.base_prefix, sys.exec_prefix, sys.base_exec_prefix):
        out.add(os.path.realpath(p))
    out.add(os.path.realpath(REPO_DIR))
    return tuple(sorted(x.rstrip("/") + "/" for x in out))


# ---------------------------------------------------------------------------------------
# scratch tree
# ---------------------------------------------------------------------------------------


class Scratch:
    """
    S/                      c c.liquid c.txt                  canary "abs"
    S/p/                    c c.liquid c.txt                  canary "parent"
    S/p/sib/                c.liquid a.liquid sub/a.liquid    canary "sibling"
    S/p/Ax/                 c.liquid a.liquid                 canary "prefix-sibling"
    S/p/A/   (root)         a a.liquid a.txt index.liquid sub/{a,b}.liquid sub/deep/d.liquid
                            ü/ü.liquid d.d/x.liquid
    S/p/B/   (root)         a.liquid b.liquid b.txt sub/onlyb.liquid
    S/pk/                   c.liquid                          canary "pk-parent"
    S/pk/c13fixpkg/         __init__.py c c.liquid c.txt other/c.liquid   canary "pkg-dir"
    S/pk/c13fixpkg/templates/ (root)  a.liquid a.txt index.liquid sub/a.liquid ü/ü.liquid
    S/pk/c13fixpkg/more/      (root)  a.liquid b.liquid b.txt sub/onlyb.liquid
    S/w/                    c c.liquid c.txt                  canary "cwd-parent"
    S/w/sib/ S/w/sitex/     c.liquid a.liquid                 canary "cwd-sibling"
    S/w/site/  (root, and the PROCESS CWD while the shard runs: search paths '.', '',
                Path(), './' designate it)  a a.liquid a.txt index.liquid sub/{a,b}.liquid
                            ü/ü.liquid '~' '~.liquid' '$HOME/a.liquid' '[a].liquid'
                            '*.liquid' '?.liquid' '~+' '%HOME%.liquid'
    S/w/site/templates/ (root, spelled 'templates', './templates', 'templates/../templates')
                            a.liquid a.txt b.liquid sub/a.liquid '~' '~.liquid'
    S/home/   ($HOME and %USERPROFILE% of the shard process; outside every root)
                            c c.liquid c.txt a a.liquid sub/a.liquid secret secret.html
                            secret.liquid                      canary "home"
    Files literally named '~' / '~.liquid' are also planted in A and in the package roots
    (they must stay servable), and files named '...liquid' / 'sub/...liquid' ('...txt' in
    more/) in every root: what with_suffix() makes of the names '..' and 'sub/..'.
    S/r/...   root-spelling sandbox (cwd of the "roots" shards is S/r/site):
              r/site/{app -> ../rel/42/app, tl -> ../rel/42/templates, cur -> ../rel/42}
              and the plain directories r, r/site, r/site/templates, r/templates, r/rel,
              r/rel/templates, r/rel/42, r/rel/42/templates, r/rel/42/app,
              r/rel/42/app/templates (+ some sub/), each holding a a.liquid a.txt
              index.liquid sub/a.liquid with unique contents.
    """

    def __init__(self, nonce: str, cwd: str = "w/site"):
        self.nonce = nonce
        self.cwd_rel = cwd
        self.S = os.path.realpath(tempfile.mkdtemp(prefix="vf-c13-"))
        self.canaries: list[tuple[str, str]] = []
        self.inside: dict[str, str] = {}  # abs path -> content
        self._old_cwd = os.getcwd()
        self._old_env = {k: os.environ.get(k) for k in ("HOME", "USERPROFILE")}
        try:
            self._build()
            # relative search paths are resolved against the process cwd, and '~' / '~user'
            # / $HOME against the environment: both point into the sandbox for the
            # lifetime of this object (one shard process) and are restored by cleanup()
            os.environ["HOME"] = self.HOME
            os.environ["USERPROFILE"] = self.HOME
            os.chdir(os.path.join(self.S, self.cwd_rel))
        except BaseException:
            self.cleanup()
            raise

    def _w(self, rel: str, content: str) -> str:
        p = os.path.join(self.S, rel)
        os.makedirs(os.path.dirname(p), exist_ok=True)
        with open(p, "w", encoding="utf-8") as f:
            f.write(content)
        return p

    def _canary(self, label: str, rel: str, prefix: str = "") -> None:
        p = self._w(rel, f"{prefix}{MARK}:{label}:{self.nonce}:{rel}")
        self.canaries.append((label, p))

    def _in(self, rel: str) -> None:
        p = self._w(rel, f"IN<{rel}>")
        self.inside[p] = f"IN<{rel}>"

    def _build(self) -> None:
        for n in ("c", "c.liquid", "c.txt"):
            self._canary("abs", n)
            self._canary("parent", f"p/{n}")
            self._canary("pkg-dir", f"pk/{PKG}/{n}")
        for n in ("c.liquid", "a.liquid", "sub/a.liquid"):
            self._canary("sibling", f"p/sib/{n}")
        for n in ("c.liquid", "a.liquid"):
            self._canary("prefix-sibling", f"p/Ax/{n}")
        self._canary("pk-parent", "pk/c.liquid")
        self._canary("pkg-dir", f"pk/{PKG}/other/c.liquid")
        self._canary("pkg-init", f"pk/{PKG}/__init__.py", prefix="# ")
        for n in ("a", "a.liquid", "a.txt", "index.liquid", "sub/a.liquid", "sub/b.liquid",
                  "sub/deep/d.liquid", "ü/ü.liquid", "d.d/x.liquid"):
            self._in(f"p/A/{n}")
        for n in ("a.liquid", "b.liquid", "b.txt", "sub/onlyb.liquid"):
            self._in(f"p/B/{n}")
        for n in ("a.liquid", "a.txt", "index.liquid", "sub/a.liquid", "ü/ü.liquid"):
            self._in(f"pk/{PKG}/templates/{n}")
        for n in ("a.liquid", "b.liquid", "b.txt", "sub/onlyb.liquid"):
            self._in(f"pk/{PKG}/more/{n}")
        # cwd-rooted tree
        for n in ("c", "c.liquid", "c.txt"):
            self._canary("cwd-parent", f"w/{n}")
        for d in ("sib", "sitex"):
            for n in ("c.liquid", "a.liquid"):
                self._canary("cwd-sibling", f"w/{d}/{n}")
        for n in ("a", "a.liquid", "a.txt", "index.liquid", "sub/a.liquid", "sub/b.liquid",
                  "ü/ü.liquid", "~", "~.liquid", "$HOME/a.liquid", "[a].liquid", "*.liquid",
                  "?.liquid", "~+", "%HOME%.liquid"):
            self._in(f"w/site/{n}")
        for n in ("a.liquid", "a.txt", "b.liquid", "sub/a.liquid", "~", "~.liquid"):
            self._in(f"w/site/templates/{n}")
        for n in ("~", "~.liquid"):
            self._in(f"p/A/{n}")
            self._in(f"pk/{PKG}/templates/{n}")
        self._in(f"pk/{PKG}/more/~.txt")
        # files whose name is what Path('..').with_suffix(ext) / Path('sub/..').with_suffix(ext)
        # produce: a loader that applies the default extension BEFORE looking for '..'
        # segments turns the names '..' and 'sub/..' into these in-root files
        for d in ("p/A", "p/B", "w/site", "w/site/templates", f"pk/{PKG}/templates"):
            self._in(f"{d}/...liquid")
            self._in(f"{d}/sub/...liquid")
        self._in(f"pk/{PKG}/more/...txt")
        self._in(f"pk/{PKG}/more/sub/...txt")
        for d in LAUNCHER_ROOTS:
            for n, src in LAUNCHERS.items():
                lp = self._w(f"{d}/{n}", src)
                self.inside[lp] = src
        # the home directory '~' would expand to
        for n in ("c", "c.liquid", "c.txt", "a", "a.liquid", "sub/a.liquid", "secret",
                  "secret.html", "secret.liquid"):
            self._canary("home", f"home/{n}")
        self.W = os.path.join(self.S, "w", "site")
        # root-spelling sandbox (see ROOT_SEGS): every directory a correct, a lexical or
        # any other wrong resolution of a search-path spelling could reach holds the same
        # file names with unique contents, so a wrong directory is visible as foreign
        # content as well as an open outside realpath(search path)
        for d in ("r", "r/site", "r/site/templates", "r/templates", "r/rel", "r/rel/templates",
                  "r/rel/42", "r/rel/42/templates", "r/rel/42/app", "r/rel/42/app/templates",
                  "r/site/sub", "r/rel/42/sub", "r/rel/sub"):
            for n in ROOT_FILES:
                if d.endswith("/sub") and n.startswith("sub/"):
                    continue
                self._in(f"{d}/{n}")
        self.R = os.path.join(self.S, "r")
        self.RSITE = os.path.join(self.S, "r", "site")
        os.symlink("../rel/42/app", os.path.join(self.RSITE, "app"), target_is_directory=True)
        os.symlink("../rel/42/templates", os.path.join(self.RSITE, "tl"), target_is_directory=True)
        os.symlink("../rel/42", os.path.join(self.RSITE, "cur"), target_is_directory=True)
        self.WT = os.path.join(self.W, "templates")
        self.HOME = os.path.join(self.S, "home")
        self.A = os.path.join(self.S, "p", "A")
        self.B = os.path.join(self.S, "p", "B")
        self.PT = os.path.join(self.S, "pk", PKG, "templates")
        self.PM = os.path.join(self.S, "pk", PKG, "more")
        self.pkpath = os.path.join(self.S, "pk")
        sys.modules.pop(PKG, None)
        sys.path.insert(0, self.pkpath)
        importlib.invalidate_caches()

    def cleanup(self) -> None:
        try:
            try:
                os.chdir(self._old_cwd)
            except OSError:
                os.chdir("/")
            for k, v in self._old_env.items():
                if v is None:
                    os.environ.pop(k, None)
                else:
                    os.environ[k] = v
            pk = os.path.join(self.S, "pk")
            while pk in sys.path:
                sys.path.remove(pk)
            for m in [m for m in sys.modules if m == PKG or m.startswith(PKG + ".")]:
                sys.modules.pop(m, None)
        finally:
            shutil.rmtree(self.S, ignore_errors=True)

    def sym(self, s: Any) -> Any:
        """Replace the (random) scratch path by a placeholder so witnesses are stable."""
        if isinstance(s, bytes):
            s = os.fsdecode(s)
        if isinstance(s, str):
            return s.replace(self.S, "${S}")
        return s

    def unsym(self, s: str) -> str:
        return s.replace("${S}", self.S)


# ---------------------------------------------------------------------------------------
# loader configurations
# ---------------------------------------------------------------------------------------


class Cfg:
    def __init__(self, cid: int, desc: str, loader: Any, roots: list[str], exts: list[str | None],
                 env: Any, sc: Scratch):
        self.id = cid
        self.desc = desc
        self.loader = loader
        self.kind = type(loader).__name__
        self.roots = [os.path.realpath(r) for r in roots]
        self.exts = exts  # default extension of each leaf loader (None = none)
        self.env = env
        self.allowed = {
            c for p, c in sc.inside.items()
            if any(p.startswith(r + "/") for r in self.roots)
        }
        self.subst = {
            "<ABSC>": os.path.join(sc.S, "c.liquid"),
            "<ABSS>": sc.S,
            "<ABSIN>": os.path.join(self.roots[0], "a.liquid"),
            "<ABSROOT>": self.roots[0],
            "<ROOTNAME>": os.path.basename(self.roots[0]),
        }
        self.t_include_var = env.from_string("[{% include n %}]")
        self.launchers: dict[str, Any] = {}
        self.rootspec: dict[str, str] | None = None  # set for the roots family
        self.rootshape = ""
        self.keysuffix = ""

    def concrete(self, toks: tuple[str, ...]) -> str:
        return "".join(self.subst.get(t, t) for t in toks)


N_CONFIGS = 22


_REC_ENV: list[Any] = []


def _rec_env_class():  # noqa: ANN202
    if not _REC_ENV:
        from liquid2 import Environment

        class RecEnv(Environment):
            def from_string(self, source, *a, **kw):  # noqa: ANN001, ANN002, ANN003
                if MON.on:
                    p = kw.get("path")
                    MON.built.append((source, None if p is None else str(p)))
                return super().from_string(source, *a, **kw)

        _REC_ENV.append(RecEnv)
    return _REC_ENV[0]


# --- root-side grammar: spellings of ONE search directory ------------------------------
ROOT_SEGS = [".", "..", "app", "tl", "cur", "templates", "sub"]   # sequences up to 3
ROOT_SEGS4 = ["..", "app", "cur", "templates", "42"]               # sequences of exactly 4
ROOT_LOADERS = ["FS", "FSx", "CFS", "Choice", "FS[missing,root]", "FS[root,other]",
                "CachingChoice"]
ROOT_FORMS = [  # (prefix, separator, trailing, as)
    ("", "/", "", "str"), ("", "/", "", "Path"), ("./", "/", "/", "str"),
    ("${CWD}/", "/", "", "str"), ("${CWD}/", "/", "", "Path"), ("", "//", "//", "str"),
    ("${CWD}//", "/", "/.", "str"), (".//", "/", "", "Path"), ("", "/./", "/", "str"),
    ("../site/", "/", "", "str"), ("${CWD}/../site/", "/", "", "Path"),
]


def root_sequences():
    """Every segment sequence the roots family considers (valid or not)."""
    for ln in (1, 2, 3):
        yield from itertools.product(ROOT_SEGS, repeat=ln)
    yield from itertools.product(ROOT_SEGS4, repeat=4)


N_ROOT_SEQUENCES = sum(len(ROOT_SEGS) ** k for k in (1, 2, 3)) + len(ROOT_SEGS4) ** 4
# ordinary template names (plus a few that must be refused) asked of every spelled root
ROOT_NAMES: list[tuple[str, ...]] = [
    ("a.liquid",), ("a",), ("index",), ("index.liquid",), ("sub/a.liquid",), ("sub/a",),
    ("./a.liquid",), ("a.txt",), ("nope.liquid",), ("templates/a.liquid",), ("a.liquid/",),
    ("../a.liquid",), ("../templates/a.liquid",), ("sub/../a.liquid",), ("<ABSIN>",), ("",),
]


def root_shape(spelling: str) -> str:
    """Classify a spelling by what the OS has to do to resolve it."""
    parts = [p for p in spelling.split("/") if p not in ("", ".")]
    cur = "/" if spelling.startswith("/") else os.getcwd()
    link = False
    dd_after_link = False
    for p in parts:
        if p == "..":
            if link:
                dd_after_link = True
            cur = os.path.realpath(os.path.join(cur, ".."))
            continue
        nxt = os.path.join(cur, p)
        if os.path.islink(nxt):
            link = True
        cur = os.path.realpath(nxt)
    if dd_after_link:
        return "dotdot-after-symlink"
    if link:
        return "symlink+dotdot" if ".." in parts else "symlink"
    return "dotdot" if ".." in parts else "plain"


def make_root_cfg(sc: Scratch, spec: dict[str, str]) -> Cfg | None:
    """Build one configuration of the roots family from a JSON-able spec, or None when
    the spelling does not designate a directory below the sandbox."""
    from pathlib import Path

    from liquid2 import CachingChoiceLoader
    from liquid2 import CachingFileSystemLoader
    from liquid2 import ChoiceLoader
    from liquid2 import FileSystemLoader

    spelling = spec["spelling"].replace("${CWD}", os.getcwd())
    if not os.path.isdir(spelling):
        return None
    real = os.path.realpath(spelling)  # the OS's resolution: symlinks first, then '..'
    if not (real == sc.R or real.startswith(sc.R + "/")):
        return None
    arg: Any = Path(spelling) if spec["as"] == "Path" else spelling
    kind = spec["loader"]
    other = os.path.join(sc.S, "p", "B")
    roots, exts = [spelling], [None]
    if kind == "FS":
        loader = FileSystemLoader(arg)
    elif kind == "FSx":
        loader, exts = FileSystemLoader(arg, ext=".liquid"), [".liquid"]
    elif kind == "CFS":
        loader, exts = CachingFileSystemLoader(arg, ext=".liquid"), [".liquid"]
    elif kind == "Choice":
        loader = ChoiceLoader([FileSystemLoader(arg)])
    elif kind == "CachingChoice":
        loader = CachingChoiceLoader([FileSystemLoader(arg, ext=".liquid")])
        exts = [".liquid"]
    elif kind == "FS[missing,root]":
        loader = FileSystemLoader([os.path.join(os.path.dirname(spelling) or ".", "nope"), arg])
    elif kind == "FS[root,other]":
        loader = FileSystemLoader([arg, other])
        roots, exts = [spelling, other], [None]
    else:
        raise ValueError(kind)
    desc = f"{kind}({spec['as']} {spec['spelling']!r})"
    cfg = Cfg(-1, desc, loader, roots, exts * len(roots) if len(exts) < len(roots) else exts,
              _rec_env_class()(loader=loader), sc)
    cfg.rootspec = dict(spec)
    cfg.rootshape = root_shape(spelling)
    cfg.keysuffix = "/root:" + cfg.rootshape
    return cfg


def build_configs(sc: Scratch, only: int | None = None) -> list[Cfg]:
    from pathlib import Path

    from liquid2 import CachingChoiceLoader
    from liquid2 import CachingFileSystemLoader
    from liquid2 import ChoiceLoader
    from liquid2 import Environment
    from liquid2 import FileSystemLoader
    from liquid2 import PackageLoader

    RecEnv = _rec_env_class()

    A, B, PT, PM = sc.A, sc.B, sc.PT, sc.PM
    W, WT = sc.W, sc.WT
    assert os.path.realpath(os.getcwd()) == W, "shard cwd must be the sandbox site dir"
    from liquid2 import Environment  # noqa: F401
    table = [
        ("FileSystemLoader(A)",
         lambda: FileSystemLoader(A), [A], [None]),
        ("FileSystemLoader(A + '/', ext='.liquid')",
         lambda: FileSystemLoader(A + "/", ext=".liquid"), [A], [".liquid"]),
        ("FileSystemLoader([A, B], ext='.liquid')",
         lambda: FileSystemLoader([A, B], ext=".liquid"), [A, B], [".liquid"]),
        ("FileSystemLoader([Path(B), A])",
         lambda: FileSystemLoader([Path(B), A]), [B, A], [None]),
        ("CachingFileSystemLoader(A, ext='.liquid')",
         lambda: CachingFileSystemLoader(A, ext=".liquid"), [A], [".liquid"]),
        ("CachingFileSystemLoader([A, B], auto_reload=False, capacity=50)",
         lambda: CachingFileSystemLoader([A, B], auto_reload=False, capacity=50), [A, B], [None]),
        ("PackageLoader(pkg)",
         lambda: PackageLoader(PKG), [PT], [".liquid"]),
        ("PackageLoader(pkg, package_path=['templates', 'more'], ext='.txt')",
         lambda: PackageLoader(PKG, package_path=["templates", "more"], ext=".txt"),
         [PT, PM], [".txt"]),
        ("ChoiceLoader([FileSystemLoader(A), PackageLoader(pkg)])",
         lambda: ChoiceLoader([FileSystemLoader(A), PackageLoader(PKG)]),
         [A, PT], [None, ".liquid"]),
        ("CachingChoiceLoader([FileSystemLoader(B, ext='.liquid'), FileSystemLoader(A)])",
         lambda: CachingChoiceLoader([FileSystemLoader(B, ext=".liquid"), FileSystemLoader(A)]),
         [B, A], [".liquid", None]),
        # search paths relative to the process cwd (= S/w/site)
        ("FileSystemLoader('.')",
         lambda: FileSystemLoader("."), [W], [None]),
        ("FileSystemLoader('', ext='.liquid')",
         lambda: FileSystemLoader("", ext=".liquid"), [W], [".liquid"]),
        ("FileSystemLoader(Path())",
         lambda: FileSystemLoader(Path()), [W], [None]),
        ("FileSystemLoader('./', ext='.liquid')",
         lambda: FileSystemLoader("./", ext=".liquid"), [W], [".liquid"]),
        ("FileSystemLoader('templates')",
         lambda: FileSystemLoader("templates"), [WT], [None]),
        ("FileSystemLoader(['./templates', '.'], ext='.liquid')",
         lambda: FileSystemLoader(["./templates", "."], ext=".liquid"), [WT, W], [".liquid"]),
        ("FileSystemLoader('templates/../templates', ext='.liquid')",
         lambda: FileSystemLoader("templates/../templates", ext=".liquid"), [WT], [".liquid"]),
        ("FileSystemLoader([A, '.'])",
         lambda: FileSystemLoader([A, "."]), [A, W], [None]),
        ("CachingFileSystemLoader('.', ext='.liquid')",
         lambda: CachingFileSystemLoader(".", ext=".liquid"), [W], [".liquid"]),
        ("CachingFileSystemLoader(['templates', ''])",
         lambda: CachingFileSystemLoader(["templates", ""]), [WT, W], [None]),
        ("ChoiceLoader([FileSystemLoader('templates', ext='.liquid'), FileSystemLoader('.')])",
         lambda: ChoiceLoader([FileSystemLoader("templates", ext=".liquid"),
                               FileSystemLoader(".")]),
         [WT, W], [".liquid", None]),
        ("CachingChoiceLoader([FileSystemLoader(''), PackageLoader(pkg)])",
         lambda: CachingChoiceLoader([FileSystemLoader(""), PackageLoader(PKG)]),
         [W, PT], [None, ".liquid"]),
    ]
    assert len(table) == N_CONFIGS
    out = []
    for i, (desc, mk, roots, exts) in enumerate(table):
        if only is not None and i != only:
            continue
        loader = mk()
        out.append(Cfg(i, desc, loader, roots, exts, RecEnv(loader=loader), sc))
    return out


# ---------------------------------------------------------------------------------------
# name grammar
# ---------------------------------------------------------------------------------------

CORE = ["/", ".", "..", "a", "sub", "c", ".liquid", ".txt", "ü", "\\", "~",
        "<ABSC>", "<ABSS>", "<ABSIN>", "<ABSROOT>"]
# second exhaustive family: home-directory / environment-variable / glob spellings as
# segments at every position ("~root" is an existing account, NOUSER is not)
NOUSER = "~c13-no-such-user"
HOMEFAM = ["/", ".", "..", "a", "c", ".liquid", "~", "~root", NOUSER, "$HOME", "${HOME}",
           "%HOME%", "~+", "~-", "*", "?", "[a]"]
EXTRA = ["sib", "<ROOTNAME>", "Ax", "deep", "b", "index", "d.d", ".html", "//", "...",
         "%2e%2e", "%2f", "%5c", "．．", "‥", "／", "\x00", " ", "*", "'", '"', "$",
         "~root", NOUSER, "$HOME", "${HOME}", "%HOME%", "~+", "~-", "?", "[a]", "secret",
         "$", "templates",
         "\ud800", "file://", "\n", "other", "__init__.py", "c.liquid", "a.liquid"]
FULL = CORE + EXTRA
THOROUGH_CORE = CORE + ["sib", "<ROOTNAME>", "//"]

ACCESS = ["py", "include-lit", "include-var", "render-lit", "extends-lit"]
MODES = ["sync", "async"]
ALL_AM = [(a, m) for a in ACCESS for m in MODES]
STATIC_FILE_AM = [(a, m) for a in STATIC_FILE_ACCESS for m in MODES]
DYN_FILE_AM = [(a, m) for a in DYN_FILE_ACCESS for m in MODES]
FILE_AM = STATIC_FILE_AM + DYN_FILE_AM


def needs_literal(access: str) -> bool:
    return access.endswith("-lit") or access.startswith("filelit-")

_UNSAFE_LIT = set("'\"\\$\n\r\x00{}")


def literal_safe(name: str) -> bool:
    for ch in name:
        if ch in _UNSAFE_LIT or ord(ch) < 32 or 0xD800 <= ord(ch) <= 0xDFFF:
            return False
    return True


def shape_of(name: str) -> str:
    if name.startswith("/"):
        return "absolute"
    if ".." in name.split("/"):
        return "dotdot"
    return "other"


def model_outside(name: str, cfg: Cfg) -> bool:
    """Independent model: does the name (with or without a default extension) designate
    a location outside every root under plain POSIX joining and normalisation?"""
    if "\x00" in name:
        return False
    cands = [name]
    for e in cfg.exts:
        if e:
            cands.append(name.rstrip("/") + e)
    for r in cfg.roots:
        for c in cands:
            p = os.path.normpath(os.path.join(r, c))
            if p == "//" or p.startswith("//"):
                p = p[1:]
            if not (p == r or p.startswith(r + "/")):
                return True
    return False


_HOMEISH = re.compile(r"~|\$|%HOME%|\*|\?|\[a")


def _too_long(name: str) -> bool:
    b = name.encode("utf-8", "surrogateescape") if not any(
        0xD800 <= ord(c) <= 0xDBFF for c in name) else b""
    return len(b) > 3500 or any(len(seg) > 240 for seg in b.split(b"/"))


def model_designates_something(name: str, cfg: Cfg) -> bool:
    """Does anything (file or directory) exist at <root>/<name>, optionally with a default
    extension, for some root — by plain joining, no expansion of any kind?  Deliberately
    generous (several spellings of "with the default extension")."""
    cands = {name}
    for e in cfg.exts:
        if e:
            cands.add(name.rstrip("/") + e)
            cands.add(os.path.normpath(name) + e if name else e)
    for r in cfg.roots:
        for c in cands:
            try:
                if os.path.lexists(os.path.join(r, c)):
                    return True
            except (ValueError, OSError):
                pass
    return False


def exhaustive_names(alphabet: list[str], maxlen: int):
    """Yield (index, token tuple) for every distinct token string of <= maxlen tokens."""
    seen: set[str] = set()
    idx = 0
    for ln in range(0, maxlen + 1):
        for tup in itertools.product(alphabet, repeat=ln):
            s = "".join(tup)
            if s in seen:
                continue
            seen.add(s)
            yield idx, tup
            idx += 1


def count_exhaustive(alphabet: list[str], maxlen: int) -> int:
    return sum(1 for _ in exhaustive_names(alphabet, maxlen))


LEADS = ["", "", "/", "//", "///", "./", "../", "../../", "<ABSS>/", "<ABSROOT>/",
         "<ABSROOT>/../", "<ABSS>/p/", "/../", "\\", "..\\", "~/", " /", "file://",
         "~//", "~root/", NOUSER + "/", "$HOME/", "${HOME}/", "%HOME%/", "~+/", "~-/", "./~/"]
SEGS = ["a", "sub", "c", "ü", "sib", "<ROOTNAME>", "..", ".", "deep", "a.liquid", "Ax", "b",
        "index", "d.d", "p", "other", "c.liquid", "c.txt", "...", "％2e％2e", "%2e%2e", "‥",
        "．．", ".. ", " ..", "..\x00", "", "~", "~root", NOUSER, "$HOME", "${HOME}", "%HOME%",
        "~+", "~-", "*", "?", "[a]", "secret", "secret.html", "templates", "*.liquid"]
SEPS = ["/", "/", "/", "//", "/./", "\\", "/../", "%2f", "／"]
EXTS = ["", "", ".liquid", ".txt", ".", ".html", ".liquid/", ".liquid/."]
TRAILS = ["", "", "", "/", "//", "/.", "\x00", " ", "/.."]


def random_name(rng: random.Random) -> tuple[str, ...]:
    if rng.random() < 0.4:
        n = rng.randint(1, 7)
        return tuple(rng.choice(FULL) for _ in range(n))
    toks = []
    lead = rng.choice(LEADS)
    if lead:
        toks.append(lead)
    k = rng.randint(1, 3)
    for j in range(k):
        if j:
            toks.append(rng.choice(SEPS))
        toks.append(rng.choice(SEGS))
    e = rng.choice(EXTS)
    if e:
        toks.append(e)
    t = rng.choice(TRAILS)
    if t and len(toks) < 7:
        toks.append(t)
    return tuple(x for x in toks[:7] if x != "")


def directed_names(sc: Scratch, cfg: Cfg) -> list[str]:
    """Concrete names aimed at every canary from every root of the configuration."""
    out: list[str] = []
    seen: set[str] = set()

    def add(s: str) -> None:
        if s not in seen:
            seen.add(s)
            out.append(s)

    def enc(rel: str) -> list[str]:
        v = [rel, rel.replace("/", "\\"), rel.replace("..", "%2e%2e"),
             rel.replace("/", "%2f"), rel.replace("..", "．．"), rel.replace("..", "‥"),
             rel.replace("/", "／"), rel.replace("..", ".. "), rel.replace("..", "..\x00"),
             rel.replace("../", "..//"), rel.replace("../", ".././"), rel.replace("/", "//")]
        return v

    for _label, cpath in sc.canaries:
        noext = cpath[: -len(os.path.splitext(cpath)[1])] if os.path.splitext(cpath)[1] else cpath
        for target in (cpath, noext):
            for r in cfg.roots:
                rel = os.path.relpath(target, r)
                for v in enc(rel):
                    add(v)
                for pre in ("./", "sub/../", "sub/deep/../../", "sub/./../", "a.liquid/../",
                            "nonexistent/../", "sub//..//", "ü/../", "/", "//", "\\"):
                    add(pre + rel)
                add(rel + "/")
                add(rel + "/.")
                add(rel + "\x00")
                add(rel + "\x00.liquid")
                # through the root's own absolute path
                add(r + "/" + rel)
                add(r + "/sub/../" + rel)
                add(r.lstrip("/") + "/" + rel)
            for v in (target, "/" + target, "//" + target, target + "/", target + "/.",
                      target.replace("/", "//"), target.replace("/", "/./"),
                      "/.." + target, "/../.." + target, "." + target, ".." + target,
                      " " + target, "file://" + target, target.lstrip("/"),
                      target.replace("/", "\\"), "~" + target, "sub/" + target,
                      target + "\x00", os.path.dirname(target) + "/./" + os.path.basename(target),
                      os.path.dirname(target) + "/x/../" + os.path.basename(target)):
                add(v)
    # relative to the directory of an including template (launchers live in the root, in
    # sub/ and in sub/deep/): where a "next to the including template" lookup would land
    for _label, cpath in sc.canaries:
        for r in cfg.roots:
            for d in ("sub", "sub/deep"):
                rel = os.path.relpath(cpath, os.path.join(r, d))
                add(rel)
                add(os.path.splitext(rel)[0])
                add("./" + rel)
    for n in ("../a.liquid", "../../a.liquid", "../sub/a.liquid", "../t_inc.liquid",
              "deep/../../a.liquid", "../index.liquid", "../a", "../../index"):
        add(n)
    # every spelling of "the home directory" for the canaries planted below $HOME
    for _label, cpath in sc.canaries:
        if not cpath.startswith(sc.HOME + "/"):
            continue
        rel = cpath[len(sc.HOME) + 1:]
        stem = os.path.splitext(rel)[0]
        for t in {rel, stem}:
            for h in ("~", "~root", NOUSER, "$HOME", "${HOME}", "%HOME%", "~+", "~-", "~~",
                      "~" + os.path.basename(sc.HOME), "$USERPROFILE", "%USERPROFILE%"):
                for sep in ("/", "//", "/./", "\\"):
                    add(h + sep + t)
                add("./" + h + "/" + t)
                add("sub/" + h + "/" + t)
                add(h + "/sub/../" + t)
                add(h + t)
            add("~/" + t + "/")
            add("~/" + t + "\x00")
            add(" ~/" + t)
            add("~ /" + t)
    for n in ("~", "~/", "~/.", "~//", "~root", "~root/", NOUSER, NOUSER + "/", NOUSER + "/a",
              NOUSER + "/a.liquid", "$HOME", "${HOME}", "%HOME%", "~+", "~-", "~.liquid",
              "templates/~", "./~", "sub/~", "~/..", "~/../home/c.liquid", "*", "?", "[a]",
              "*.liquid", "?.liquid", "[a].liquid", "a*", "a?", "[a-z].liquid", "$HOME/a",
              "$HOME/a.liquid", "${HOME}/a.liquid", "%HOME%.liquid", "{a,b}.liquid",
              "x" * 300, "x" * 300 + ".liquid", "sub/" + "x" * 300, "x" * 300 + "/a.liquid",
              "ü" * 200, "a/" * 2500 + "a"):
        add(n)
    # absolute / dotdot names that resolve INSIDE a root (must still be refused)
    for r in cfg.roots:
        for n in ("a.liquid", "a", "sub/a.liquid", "index.liquid", "", "sub", "b.txt", "b"):
            add(r + "/" + n)
            add("/" + r + "/" + n)
            add("sub/../" + n)
            add("../" + os.path.basename(r) + "/" + n)
            add("./../" + os.path.basename(r) + "/" + n)
            add("sub/deep/../../" + n)
            add("sub/deep/../" + n)
    for n in ("/", "//", "/.", "/..", "/../", "..", "../", "../.", "../..", "sub/..", "sub/../",
              "sub/../..", "./..", "a/..", "a.liquid/..", "/dev/null", "//dev/null", "/dev/../dev/null",
              "/etc/..", "//etc/..", "/etc", "//etc/", "../../../../../../../../dev/null",
              "sub/../../../../../../../../../dev/null", "/tmp", "/tmp/",
              "/nonexistent/x.liquid", "/\x00", "..\x00", "../\x00"):
        add(n)
    return out


# ---------------------------------------------------------------------------------------
# one observed call
# ---------------------------------------------------------------------------------------


class Obs:
    __slots__ = ("ok", "exc", "excmsg", "texts", "paths", "events", "built")

    def __init__(self) -> None:
        self.ok = False
        self.exc: str | None = None
        self.excmsg = ""
        self.texts: list[tuple[str, str]] = []  # (where, text)
        self.paths: list[tuple[str, str]] = []  # (where, path)
        self.events: list[tuple[str, Any]] = []
        self.built: list[tuple[str, str | None]] = []


class Runner:
    def __init__(self, ctx: Ctx, sc: Scratch, cfgs: list[Cfg]):
        from liquid2.exceptions import LiquidError
        from liquid2.exceptions import TemplateNotFoundError

        self.ctx = ctx
        self.sc = sc
        self.cfgs = cfgs
        self.TNF = TemplateNotFoundError
        self.LiquidError = LiquidError
        self.ignore = _python_prefixes()
        self._rp: dict[str, str] = {}
        self.verbose = False
        self.thorough = ctx.tier == "thorough"
        self._dyn = 0
        MON.install()

    # -- preparing the call ------------------------------------------------------------
    def _outer(self, cfg: Cfg, access: str, name: str):  # noqa: ANN202
        """Return (template | None | False, render data, file to remove afterwards)."""
        if access == "py":
            return None, None, None
        if access == "include-var":
            return cfg.t_include_var, {"n": name}, None
        try:
            if access in STATIC_FILE_ACCESS:
                if cfg.rootspec is not None:
                    return False, None, None
                t = cfg.launchers.get(access)
                if t is None:
                    # loaded by name, OUTSIDE the observation window
                    t = cfg.launchers[access] = cfg.env.get_template(STATIC_FILE_ACCESS[access])
                return t, {"n": name}, None
            if access.startswith("filelit-"):
                if cfg.rootspec is not None:
                    return False, None, None
                tag, where = access[len("filelit-"):].split("@")
                src = (f"{{% extends '{name}' %}}" if tag == "extends"
                       else f"[{{% {tag} '{name}' %}}]")
                self._dyn += 1
                rel = ("" if where == "root" else where + "/") + f"t_dyn_{self._dyn}.liquid"
                path = os.path.join(cfg.roots[0], rel)
                with open(path, "w", encoding="utf-8") as f:
                    f.write(src)
                try:
                    return cfg.env.get_template(rel), {}, path
                except BaseException:
                    os.unlink(path)
                    raise
            tag = access.split("-")[0]
            src = f"{{% extends '{name}' %}}" if tag == "extends" else f"[{{% {tag} '{name}' %}}]"
            return cfg.env.from_string(src), {}, None
        except self.LiquidError:
            self.ctx.count("outer_parse_failed")
            return False, None, None

    def _finish(self, ob: Obs, access: str, result: Any) -> None:
        ob.ok = True
        if access == "py":
            ob.texts.append(("str(template)", str(result)))
            if result.path is not None:
                ob.paths.append(("template.path", str(result.path)))
        else:
            # in-root contents never start with '[': strip the launcher's brackets if any
            inner = result[1:-1] if result.startswith("[") and result.endswith("]") else result
            ob.texts.append(("output", inner))

    def call_sync(self, cfg: Cfg, access: str, name: str) -> Obs | None:
        outer, data, tmpfile = self._outer(cfg, access, name)
        if outer is False:
            return None
        ob = Obs()
        MON.start()
        try:
            if outer is None:
                res = cfg.env.get_template(name)
            else:
                res = outer.render(**data)
            ob.events, ob.built = MON.stop()
            self._finish(ob, access, res)
        except Exception as e:  # noqa: BLE001
            ob.events, ob.built = MON.stop()
            ob.exc = type(e).__name__
            ob.excmsg = _safe_str(e)
        finally:
            MON.on = False
            if tmpfile:
                os.unlink(tmpfile)
        return ob

    async def call_async(self, cfg: Cfg, access: str, name: str) -> Obs | None:
        outer, data, tmpfile = self._outer(cfg, access, name)
        if outer is False:
            return None
        ob = Obs()
        MON.start()
        try:
            if outer is None:
                res = await cfg.env.get_template_async(name)
            else:
                res = await outer.render_async(**data)
            ob.events, ob.built = MON.stop()
            self._finish(ob, access, res)
        except Exception as e:  # noqa: BLE001
            ob.events, ob.built = MON.stop()
            ob.exc = type(e).__name__
            ob.excmsg = _safe_str(e)
        finally:
            MON.on = False
            if tmpfile:
                os.unlink(tmpfile)
        return ob

    # -- the oracle -------------------------------------------------------------------
    def realpath(self, p: str) -> str:
        r = self._rp.get(p)
        if r is None:
            try:
                r = os.path.realpath(p)
            except (ValueError, OSError):
                r = p
            if len(self._rp) > 50_000:
                self._rp.clear()
            self._rp[p] = r
        return r

    def _syspath(self) -> set[str]:
        return {os.path.realpath(p or ".") for p in sys.path}

    def inside(self, rp: str, cfg: Cfg) -> bool:
        return any(rp == r or rp.startswith(r + "/") for r in cfg.roots)

    def judge(self, cfg: Cfg, access: str, mode: str, name: str, ob: Obs,
              ntoks: int = 2, symbolic: str | None = None) -> list[str]:
        ctx = self.ctx
        sc = self.sc
        ctx.ev()
        ctx.count("loader_calls")
        shape = shape_of(name)
        outside = model_outside(name, cfg)
        must_fail = shape != "other" or outside
        fails: dict[str, Any] = {}

        # clause 1: what was opened
        for kind, p in ob.events:
            if isinstance(p, int):
                ctx.count("audit_fd_events")
                continue
            if isinstance(p, bytes):
                p = os.fsdecode(p)
            p = str(p)
            rp = self.realpath(p)
            if any((rp + "/").startswith(pre) for pre in self.ignore) or (
                    kind == "os.listdir" and rp in self._syspath()):
                # lazy import: file reads below the Python installation, and the path
                # finder listing a sys.path entry
                ctx.count("audit_python_import_reads_ignored")
                continue
            ctx.count("audit_open_events")
            if self.inside(rp, cfg):
                ctx.count("audit_open_inside_root")
            else:
                fails.setdefault("opened-outside-root", []).append(
                    {"audit_event": kind, "path": sc.sym(p)})
        for where, p in ob.paths + [("from_string(path=)", b[1]) for b in ob.built if b[1]]:
            if not self.inside(self.realpath(p), cfg):
                fails.setdefault("opened-outside-root", []).append({where: sc.sym(p)})

        # clause 2: what came back
        for where, text in ob.texts + [("from_string(source)", b[0]) for b in ob.built]:
            if MARK in text:
                fails.setdefault("canary-returned", []).append({where: sc.sym(text[:120])})
            elif text not in cfg.allowed:
                fails.setdefault("foreign-content-returned", []).append({where: sc.sym(text[:120])})
            else:
                ctx.count("content_checks_inside")

        # clause 3: escaping names must fail with TemplateNotFoundError
        if must_fail:
            ctx.count("must_fail_checked")
            ctx.count(f"must_fail_shape:{shape}")
            if ob.ok:
                if "canary-returned" not in fails and "foreign-content-returned" not in fails:
                    segs = [x for x in name.split("/") if x not in ("", ".")]
                    # key refinement only: the sole '..' is the last segment and a default
                    # extension exists, i.e. with_suffix() can have turned it into '...<ext>'
                    clause = ("served:trailing-dotdot+ext"
                              if shape == "dotdot" and segs and segs[-1] == ".."
                              and segs.count("..") == 1 and any(cfg.exts) else "served")
                    fails[clause] = [{"texts": [sc.sym(t[:80]) for _, t in ob.texts]}]
            elif ob.exc != "TemplateNotFoundError":
                fails[f"wrong-error-type:{ob.exc}"] = [{"message": sc.sym(ob.excmsg[:160])}]
            else:
                ctx.count("must_fail_ok")
        else:
            if ob.ok:
                ctx.count("served_inside")
            elif ob.exc == "TemplateNotFoundError":
                ctx.count("not_found_inside")
            elif _too_long(name):
                # ENAMETOOLONG: the OS refuses to evaluate the name at all; it neither
                # resolves inside nor outside a root and nothing is read — counted only
                ctx.count(f"diag:name-too-long:{ob.exc}")
                ctx.seen("diag_non_escaping_errors", f"{ob.exc}(name too long)@{cfg.kind}")
            elif not model_designates_something(name, cfg):
                # nothing exists at <root>/<name>[<ext>] for any root: whatever else the
                # loader made of the name ('~user', '$HOME', globs, ...) it did not resolve
                # inside a root, so the only admissible failure is TemplateNotFoundError
                ctx.count("nothing_inside_wrong_error")
                fails[f"wrong-error-type:{ob.exc}"] = [{"message": sc.sym(ob.excmsg[:160])}]
            else:
                ctx.count(f"diag:{ob.exc}")  # e.g. IsADirectoryError for '', '.', 'sub/'
                ctx.seen("diag_non_escaping_errors", f"{ob.exc}@{cfg.kind}")
            if _HOMEISH.search(name):
                ctx.count("homeish_names_checked")
                if ob.ok:
                    ctx.count("homeish_names_served_inside")
        ctx.count("outcome:" + ("ok" if ob.ok else str(ob.exc)))
        ctx.seen("loader_kinds", cfg.kind)
        ctx.seen("access_paths", f"{access}/{mode}")
        if access.startswith("file"):
            ctx.count("file_parent_calls")
            if must_fail:
                ctx.count("file_parent_must_fail_checked")
        if cfg.rootspec is None:
            ctx.seen("configs", cfg.desc)
        else:
            ctx.count("root_family_calls")
            ctx.seen("root_shapes", cfg.rootshape)
            if ob.ok:
                ctx.count("root_family_served_inside:" + cfg.rootshape)
        if ntoks >= 2:
            ctx.nt(symbolic if symbolic is not None else sc.sym(name), cfg.id)

        keys = []
        for clause, details in fails.items():
            key = f"{shape}-name:{clause}@{cfg.kind}{cfg.keysuffix}"
            keys.append(key)
            what = {
                "opened-outside-root": "a file outside every search root was opened / returned as template path",
                "canary-returned": "content of a canary file planted outside the roots was returned as template source",
                "foreign-content-returned": "returned source is not the content of any file inside the roots",
                "served": "a name that is absolute / has a '..' segment / resolves outside was served instead of TemplateNotFoundError",
                "served:trailing-dotdot+ext": "a name whose last segment is '..' was served (the default extension turned it into the in-root file '...<ext>') instead of TemplateNotFoundError",
            }.get(clause, ("escaping name" if must_fail else "name that designates nothing inside any root")
                  + " failed with " + clause.split(":", 1)[-1] + " instead of TemplateNotFoundError")
            ctx.violation(key, f"{cfg.kind}: {what} ({shape} name)", {
                "cfg": cfg.id, "cfg_desc": cfg.desc, "root_cfg": cfg.rootspec,
                "search_path_real": [sc.sym(x) for x in cfg.roots],
                "access": access, "mode": mode,
                "name": sc.sym(name), "shape": shape, "model_resolves_outside": outside,
                "outcome": "ok" if ob.ok else ob.exc, "clause": clause,
                "details": details[:4],
                "audit_events": [[k, sc.sym(p)] for k, p in ob.events[:6]],
            })
        if self.verbose:
            print(f"  cfg={cfg.id} {cfg.desc}\n  access={access}/{mode} name={sc.sym(name)!r} "
                  f"shape={shape} model_outside={outside} must_fail={must_fail}")
            print(f"  outcome={'ok' if ob.ok else ob.exc} {sc.sym(ob.excmsg)[:100]!r}")
            print(f"  audit events={[(k, sc.sym(p)) for k, p in ob.events]}")
            print(f"  parsed={[(sc.sym(s[:60]), sc.sym(p)) for s, p in ob.built]}")
            print(f"  texts={[(w, sc.sym(t[:60])) for w, t in ob.texts]} paths={[(w, sc.sym(p)) for w, p in ob.paths]}")
            print(f"  violated clauses={keys}")
        return keys

    # -- running a batch: list of (cfg, access, mode, name, ntoks, symbolic) -------------
    def run_batch(self, jobs: list[tuple[Cfg, str, str, str, int, str | None]]) -> None:
        asyncs = []
        for job in jobs:
            cfg, access, mode, name, ntoks, symb = job
            if needs_literal(access) and not literal_safe(name):
                self.ctx.count("literal_unsafe_skipped")
                continue
            if mode == "sync":
                ob = self.call_sync(cfg, access, name)
                if ob is not None:
                    self.judge(cfg, access, mode, name, ob, ntoks, symb)
            else:
                asyncs.append(job)
        if asyncs:
            async def go() -> None:
                for cfg, access, mode, name, ntoks, symb in asyncs:
                    ob = await self.call_async(cfg, access, name)
                    if ob is not None:
                        self.judge(cfg, access, mode, name, ob, ntoks, symb)

            asyncio.run(go())
            self.ctx.count("asyncio_runs")

    def selfcheck(self) -> None:
        """Positive control: the recorder must see an open performed in an executor
        thread and classify a canary as outside every root."""
        cfg = self.cfgs[0]
        canary = self.sc.canaries[0][1]

        def rd() -> str:
            with open(canary, encoding="utf-8") as f:
                return f.read()

        async def go() -> str:
            return await asyncio.get_running_loop().run_in_executor(None, rd)

        for how in ("sync", "thread"):
            MON.start()
            try:
                text = rd() if how == "sync" else asyncio.run(go())
            finally:
                ev, _ = MON.stop()
            seen = [p for k, p in ev if k == "open" and isinstance(p, str)
                    and self.realpath(p) == canary]
            if seen and MARK in text and not self.inside(self.realpath(canary), cfg) \
                    and not any((canary + "/").startswith(pre) for pre in self.ignore):
                self.ctx.count("selfcheck_ok")
            else:
                self.ctx.note(f"selfcheck failed ({how}): events={ev[:5]!r}")


def _safe_str(e: BaseException) -> str:
    try:
        return str(e)
    except Exception as e2:  # noqa: BLE001
        return f"<str() raised {type(e2).__name__}>"


# ---------------------------------------------------------------------------------------
# shards
# ---------------------------------------------------------------------------------------


def shards(tier: str, seed: int) -> list[dict[str, Any]]:
    specs: list[dict[str, Any]] = []
    ne, nr, nd = (9, 3, 4) if tier == "quick" else (20, 8, 4)
    for i in range(ne):
        specs.append({"kind": "exh", "i": i, "n": ne})
    for i in range(nr):
        specs.append({"kind": "rand", "i": i, "n": nr})
    for i in range(nd):
        specs.append({"kind": "directed", "i": i, "n": nd})
    nroot = 2 if tier == "quick" else 4
    for i in range(nroot):
        specs.append({"kind": "roots", "i": i, "n": nroot})
    return specs


def floors(tier: str) -> dict[str, int]:
    q = tier == "quick"
    return {
        # calibrated at ~40-50 % of what the unchanged tree yields (see evidence counters)
        # (quick: 2.2 M calls / 1.4 M cases / 8.8 k opens; thorough: 14.9 M / 4.9 M / 47 k)
        "evaluations": 900_000 if q else 7_000_000,
        "distinct_nontrivial": 600_000 if q else 2_400_000,
        "loader_calls": 900_000 if q else 7_000_000,
        "audit_open_events": 4_000 if q else 20_000,
        "audit_open_inside_root": 4_000 if q else 20_000,
        "content_checks_inside": 6_000 if q else 35_000,
        "must_fail_checked": 350_000 if q else 2_000_000,
        "must_fail_shape:dotdot": 70_000 if q else 450_000,
        "must_fail_shape:absolute": 280_000 if q else 1_600_000,
        "served_inside": 3_500 if q else 20_000,
        "homeish_names_checked": 280_000 if q else 3_000_000,
        "homeish_names_served_inside": 2_000 if q else 10_000,
        # root-spelling family (quick: 634 configurations / 30 k calls; thorough: 1420 / 227 k)
        "root_configs_built": 300 if q else 700,
        "root_configs_built:dotdot-after-symlink": 100 if q else 220,
        "root_family_calls": 15_000 if q else 110_000,
        "root_family_served_inside:dotdot-after-symlink": 2_500 if q else 19_000,
        "root_family_served_inside:symlink": 1_500 if q else 11_000,
        "set:root_shapes": 5,
        "max:canaries_planted": 4,
        "selfcheck_ok": 2,
        "set:loader_kinds": 5,
        "set:access_paths": 34,
        # tags executed in templates that were themselves loaded by name (quick: 373 k calls)
        "file_parent_calls": 150_000 if q else 1_500_000,
        "file_parent_must_fail_checked": 50_000 if q else 500_000,
        "set:configs": N_CONFIGS,
    }


def _families(tier: str) -> list[tuple[str, list[str], int, list[str]]]:
    """(label, alphabet, max tokens, fan-out scheme per token count — see _expand).  Every
    enumerated name meets every configuration at least from Python (sync)."""
    if tier == "quick":
        return [("core", CORE, 4, ["full", "full", "full", "rot", "py1"]),
                ("home", HOMEFAM, 3, ["full", "full", "full", "py2"])]
    return [("core", THOROUGH_CORE, 4, ["full", "full", "full", "full", "py3"]),
            ("home", HOMEFAM, 4, ["full", "full", "full", "full", "py2"])]


def exhaustive(tier: str, merged: dict[str, Any]) -> bool:
    ok = not merged.get("truncated") and not merged.get("failed")
    for label, alphabet, maxlen, _ in _families(tier):
        want = count_exhaustive(alphabet, maxlen)
        ok = ok and merged["counters"].get(f"exh_names_done:{label}", 0) == want
    ok = ok and merged["counters"].get("root_sequences_enumerated", 0) == N_ROOT_SEQUENCES
    return bool(ok)


def run_shard(spec: dict[str, Any], ctx: Ctx) -> None:
    if spec["kind"] == "roots":
        _roots_shard(spec, ctx)
        return
    sc = Scratch(hhex(spec["seed"], "c13"))
    try:
        cfgs = build_configs(sc)
        r = Runner(ctx, sc, cfgs)
        ctx.mx("max:canaries_planted", len(sc.canaries))
        r.selfcheck()
        kind = spec["kind"]
        if kind == "exh":
            _exh(r, spec, ctx)
        elif kind == "rand":
            _rand(r, spec, ctx)
        elif kind == "directed":
            _directed(r, spec, ctx)
    finally:
        MON.on = False
        sc.cleanup()


CHUNK = 40
TAG_AM = ALL_AM[2:]  # the eight tag-driven (access, mode) pairs


def _expand(r: Runner, jobs: list[Any], k: int, scheme: str, ntoks: int, symb: str | None,
            toks: tuple[str, ...] | None = None, name: str | None = None,
            cfgs: list[Cfg] | None = None) -> None:
    """Append the calls for one name.  scheme:
    full  every configuration x all 10 (access, mode) pairs + the file-parent paths;
    (rot / py3 / py2 / py1 additionally take one rotating file-parent path, see code)
    rot   every configuration: py/sync, py/async and 3 of the 8 tag paths, rotating with the
          name index and the configuration so that each name meets all 10 paths;
    py3 / py2  every configuration: py/sync and 2 / 1 of the other 9 paths, rotating;
    py1   every configuration from Python (sync); one configuration (rotating) also
          through one further rotating path."""
    use = cfgs if cfgs is not None else r.cfgs
    nf = len(FILE_AM)
    for ci, cfg in enumerate(use):
        nm = cfg.concrete(toks) if toks is not None else name
        if scheme == "full":
            # quick: the 12 launcher paths; thorough: also the 12 written-literal paths
            ams = ALL_AM + (FILE_AM if r.thorough else STATIC_FILE_AM)
        elif scheme == "rot":
            o = 3 * (k + ci)
            ams = [ALL_AM[0], ALL_AM[1]] + [TAG_AM[(o + j) % 8] for j in range(3)]
            ams.append(FILE_AM[(k + ci) % nf])
        elif scheme in ("py3", "py3f"):
            o = 2 * (k + ci)
            ams = [ALL_AM[0], ALL_AM[1 + o % 9], ALL_AM[1 + (o + 1) % 9]]
            if scheme == "py3f" or (k + ci) % 4 == 0:
                ams.append(FILE_AM[(k // (1 if scheme == "py3f" else 4) + ci) % nf])
        elif scheme == "py2":
            ams = [ALL_AM[0], ALL_AM[1 + (k + ci) % 9]]
            if (k + ci) % 4 == 0:
                ams.append(FILE_AM[(k // 4 + ci) % nf])
        else:
            ams = [ALL_AM[0]]
            if ci == k % len(use):
                j = k // len(use)
                ams.append(FILE_AM[(j // 2) % nf] if j % 2 else ALL_AM[1 + (j // 2) % 9])
        for a, m in ams:
            jobs.append((cfg, a, m, nm, ntoks, symb))


def _exh(r: Runner, spec: dict[str, Any], ctx: Ctx) -> None:
    for label, alphabet, maxlen, schemes in _families(spec["tier"]):
        jobs: list[Any] = []
        nchunk = 0
        last = None
        for idx, toks in exhaustive_names(alphabet, maxlen):
            if idx % spec["n"] != spec["i"]:
                continue
            symb = "".join(toks)
            nt = len(toks)
            k = idx // spec["n"]
            scheme = schemes[nt]
            _expand(r, jobs, k, scheme, nt, symb, toks=toks)
            ctx.count(f"exh_names_done:{label}")
            ctx.count(f"exh_scheme:{label}:{nt}tok:{scheme}")
            ctx.mx(f"max:exh_tokens:{label}", nt)
            last = symb
            nchunk += 1
            if nchunk >= CHUNK:
                r.run_batch(jobs)
                jobs = []
                nchunk = 0
                ctx.check_deadline()
        r.run_batch(jobs)
        ctx.sample({"kind": "exhaustive:" + label, "name": last, "alphabet": alphabet,
                    "max_tokens": maxlen})


def _roots_shard(spec: dict[str, Any], ctx: Ctx) -> None:
    """Root side: every spelling of a search directory (segment sequences over ROOT_SEGS /
    ROOT_SEGS4 x prefix / separator / trailing / str|Path x loader kind) that the OS
    resolves to a directory of the sandbox; the oracle root is realpath(spelling)."""
    sc = Scratch(hhex(spec["seed"], "c13"), cwd="r/site")
    try:
        first = make_root_cfg(sc, {"loader": "FS", "as": "str", "spelling": "."})
        assert first is not None
        r = Runner(ctx, sc, [first])
        ctx.mx("max:canaries_planted", len(sc.canaries))
        r.selfcheck()
        scheme = "py3" if spec["tier"] == "quick" else "full"
        nvar = 3 if spec["tier"] == "quick" else 8
        last = None
        for idx, seq in enumerate(root_sequences()):
            ctx.count("root_sequences_enumerated") if spec["i"] == 0 else None
            if idx % spec["n"] != spec["i"]:
                continue
            k = idx // spec["n"]
            variants = [(ROOT_FORMS[0], "FS")]
            for j in range(nvar):
                variants.append((ROOT_FORMS[(k * nvar + j) % len(ROOT_FORMS)],
                                 ROOT_LOADERS[(k + j) % len(ROOT_LOADERS)]))
            jobs: list[Any] = []
            for (prefix, sep, trail, as_), lk in dict.fromkeys(variants):
                spelling = prefix + sep.join(seq) + trail
                cfg = make_root_cfg(sc, {"loader": lk, "as": as_, "spelling": spelling})
                if cfg is None:
                    ctx.count("root_spellings_not_a_sandbox_directory")
                    continue
                ctx.count("root_configs_built")
                ctx.count("root_configs_built:" + cfg.rootshape)
                last = cfg.desc
                for ni, toks in enumerate(ROOT_NAMES):
                    _expand(r, jobs, k + ni, scheme, max(2, len(seq)),
                            cfg.desc + "|" + "".join(toks), toks=toks, cfgs=[cfg])
            r.run_batch(jobs)
            ctx.check_deadline()
        ctx.sample({"kind": "root-spelling", "config": last, "names": ["".join(t) for t in ROOT_NAMES]})
    finally:
        MON.on = False
        sc.cleanup()


def _rand(r: Runner, spec: dict[str, Any], ctx: Ctx) -> None:
    rng = random.Random(f"{spec['seed']}:rand:{spec['i']}")
    total = 2400 if spec["tier"] == "quick" else 32_000
    n = total // spec["n"]
    jobs: list[Any] = []
    last = None
    for j in range(n):
        toks = random_name(rng)
        symb = "".join(toks)
        ctx.mx("max:rand_tokens", len(toks))
        _expand(r, jobs, j, "rot", len(toks), symb, toks=toks)
        ctx.count("rand_names_done")
        last = symb
        if (j + 1) % CHUNK == 0:
            r.run_batch(jobs)
            jobs = []
            ctx.check_deadline()
    r.run_batch(jobs)
    ctx.sample({"kind": "random", "name": last})


def _directed(r: Runner, spec: dict[str, Any], ctx: Ctx) -> None:
    last = None
    scheme = "py3f" if spec["tier"] == "quick" else "full"
    for cfg in r.cfgs:
        if cfg.id % spec["n"] != spec["i"]:
            continue
        jobs: list[Any] = []
        for j, name in enumerate(directed_names(r.sc, cfg)):
            _expand(r, jobs, j, scheme, 2, None, name=name, cfgs=[cfg])
            ctx.count("directed_names_done")
            last = name
            if (j + 1) % CHUNK == 0:
                r.run_batch(jobs)
                jobs = []
                ctx.check_deadline()
        r.run_batch(jobs)
    if last is not None:
        ctx.sample({"kind": "directed", "name": r.sc.sym(last)})


# ---------------------------------------------------------------------------------------
# replay
# ---------------------------------------------------------------------------------------


def replay(wit: dict[str, Any], ctx: Ctx) -> None:
    rootspec = wit.get("root_cfg")
    sc = Scratch(hhex(ctx.seed, "c13"), cwd="r/site" if rootspec else "w/site")
    try:
        if rootspec:
            cfg = make_root_cfg(sc, rootspec)
            assert cfg is not None, "witness spelling no longer designates a directory"
        else:
            cfg = build_configs(sc, only=int(wit["cfg"]))[0]
        r = Runner(ctx, sc, [cfg])
        r.selfcheck()  # also warms up the lazy imports of the executor machinery
        r.verbose = True
        name = sc.unsym(wit["name"])
        access, mode = wit["access"], wit["mode"]
        print(f"replay C13: scratch={sc.S} (removed afterwards); canaries planted={len(sc.canaries)}")
        if mode == "sync":
            ob = r.call_sync(cfg, access, name)
            keys = r.judge(cfg, access, mode, name, ob) if ob is not None else []
        else:
            async def go() -> list[str]:
                ob = await r.call_async(cfg, access, name)
                return r.judge(cfg, access, mode, name, ob) if ob is not None else []

            keys = asyncio.run(go())
        print(f"replay C13: keys={keys}")
    finally:
        MON.on = False
        sc.cleanup()
