"""C10 — templates may shadow caller data but never change it; lookup precedence holds.

Two monitors, both over executions of the real liquid2 code reached through the public
API only (Environment(globals=…), from_string/get_template(globals=…), a loader whose
get_source returns TemplateSource(matter=…), render(**args)):

O1  read-only data.  Every container handed to the engine is a FrozenList/FrozenDict
    (list/dict subclasses) that logs every mutating method call.  Before a render a deep
    snapshot (copy.deepcopy to plain containers + a structural canon that distinguishes
    list order, dict insertion order and types) is taken of all four layers; after the
    render — successful or not — the log must be empty and every layer must be
    deep-equal and canon-equal to its snapshot.
O2  lookup precedence, bounded-exhaustive.  For the names n, now, today: every subset
    of the layers {block, local, render argument, matter, template global, environment
    global, counter} (+ the built-in for now/today) with distinct values, read at a dozen
    syntactic positions, in the root template, in include/render partials, macro
    bodies and an overridden block, sync and async, through get_template /
    get_template_async / from_string.  The value printed must be the one of the first
    present layer in the documented order.  The same enumeration is repeated with the
    resolving layer (and the resolving + next layer, and only the next layer) bound to
    nil, false, 0, '', [] and {}: a binding to a falsy-looking value is still a binding,
    so the lookup must stop there; extra sites (== nil, == false, == empty, | json) and
    a StrictUndefined environment tell nil apart from "undefined".
    Block-layer constructions cover every tag that binds names: with, for and tablerow
    loop variables, include/render keyword arguments, bound variables and `as` aliases,
    macro parameters and defaults, translate keyword arguments (lookup site = the message
    variable; `count` enumerated as a name of its own), lambda parameters of every
    lambda filter, and the objects forloop / tablerowloop / args / kwargs; locals come
    from assign and capture, counters from increment and decrement.  In include /
    render / extends contexts the partial's OWN loader matter is a further layer: whether
    it is visible at all is undocumented (HEAD ignores it), but it may never outrank a
    block, a local or a render() argument.
    A `sibling` context puts the lookup in the argument expression of a sibling binding
    of the same tag (with, include/render keyword arguments and `with … as`, call,
    translate): arguments are evaluated in the enclosing scope.  A `chain` context puts
    it in a partial rendered / macro called from inside an overriding block.  The loader
    families also use docs-style FileSystemLoader / CachingFileSystemLoader SUBCLASSES
    overriding get_source only, both, or get_source_async only, and a ChoiceLoader.
O2c the same oracle on the 2nd and 3rd get_template() of one name through front-matter
    style loaders built on CachingDictLoader, CachingFileSystemLoader (real files in a
    temp dir, async under a private event loop) and CachingChoiceLoader, sync and async,
    the later loads passing the same, different or no globals=, in the root template and
    with include/render/extends of a cached matter-carrying partial that another caller
    loaded first (and loads directly again afterwards).  Which caller's template globals
    a shared cached template shows is not judged (C14); the rank of matter, environment
    globals, render arguments, locals, blocks, built-ins and counters is.
"""

from __future__ import annotations

import collections
import copy
import inspect
import operator
import os
import random
import re
import sys
from typing import Any
from typing import Iterator

from ..core import Ctx
from ..core import REPO_DIR
from ..core import hhex
from ..instr.sched import drive

ID = "C10"
LEVEL = "exploration"
RULE = (
    "O1 cases = (every filter registered on the environment x ~20 argument forms x every "
    "container path reachable from the four data layers, reached directly and through "
    "assign/default/with/macro/include/render/for/ternary/array-literal/echo/liquid/"
    "capture/tablerow aliases) + (tag forms: for with limit/offset/reversed/continue, "
    "cycle, include/render with|for, tablerow, if/case/contains, with, macro/call, "
    "translate, extends/block, shadowing assign/capture/increment) + seeded random filter "
    "chains, a third of them followed by a construct that raises a LiquidError "
    "mid-render; sync and async; get_template and from_string.  distinct = hash of "
    "(templates, api, mode, data seed); non-trivial = the template parsed, i.e. >= 1 "
    "container reachable from caller data was handed to a filter or tag at render time.  "
    "O2 cases = (name, layer subset, lookup context, construction variant, api, mode, "
    "value profile: distinct strings | resolving layer(s) bound to nil/false/0/''/[]/{}); "
    "non-trivial = >= 2 layers define the name, or a layer binds a falsy-looking value.  "
    "O2c cases = (name, layer subset, caching matter loader, sync/async load, globals "
    "passed by the later loads, context); each performs three get_template calls of the "
    "same name (two cache hits) with two renders after each."
)
ASSUMPTIONS = [
    "caller data is JSON-like (None/bool/int/float/str/list/dict/tuple); user-defined "
    "drops with their own side effects are outside the statement's reach here",
    "list/dict subclasses are accepted wherever liquid2 accepts list/dict "
    "(isinstance-based dispatch); C-level mutation that bypasses overridden methods "
    "(list.sort(x), heapq, dict.update(d, …)) is only seen by the deep comparison",
    "caller data also includes mappings that may insert a key when a missing one is read "
    "(collections.defaultdict, a dict subclass with an inserting __missing__, Counter, "
    "ChainMap); these are not instrumented, only deep-compared; a change confined to them "
    "is keyed mutation:<filter|tag>:deep-diff(auto-vivify):any-layer",
    "a refused mutation raises MutationRefused(TypeError); two thirds of the O1 shards "
    "refuse, one third permit-and-log so the deep-diff monitor also sees real changes",
    "counter layer value is 3 (three increments executed before the lookup, their "
    "output discarded by delimiters); built-in now/today are recognised by their "
    "printed shape, not by an injected clock",
    "falsy-value profiles: the counter and built-in layers cannot bind nil, so subsets "
    "whose resolving layer is one of them are not applicable (6 of 384); the expected "
    "text per site is a hand-written table from the documented semantics (nil prints '', "
    "only nil/false are falsy, default replaces nil/false/empty); printing a hash "
    "directly is undocumented and only required not to show another layer's value; [] "
    "and {} reach block/local layers through a helper environment global (c10f, "
    "c10items) because Liquid has no literal for them",
]

LAYERS = ("env", "tmpl", "matter", "args")
PREFIX = {"env": "E", "tmpl": "T", "matter": "M", "args": "R"}


# ---------------------------------------------------------------------------------------
# mutation-logging containers
# ---------------------------------------------------------------------------------------


class MutationRefused(TypeError):
    """Raised by a frozen container when a mutating method is called (refuse mode)."""


def _liquid_root() -> str:
    return os.path.join(os.path.realpath(REPO_DIR), "liquid2") + os.sep


_ROOT_CACHE: list[str] = []


def _stack_subject() -> tuple[str | None, str | None]:
    """(filter or tag executing, innermost liquid2 function) at the time of a mutation."""
    if not _ROOT_CACHE:
        _ROOT_CACHE.append(_liquid_root())
        _ROOT_CACHE.append(os.sep + "liquid2" + os.sep)
    f = sys._getframe(2)  # noqa: SLF001
    filt = None
    node = None
    where = None
    while f is not None:
        fn = f.f_code.co_filename
        if _ROOT_CACHE[1] in fn and "vf" + os.sep + "props" not in fn:
            if where is None:
                rel = fn.split(_ROOT_CACHE[1])[-1].removesuffix(".py").replace(os.sep, ".")
                where = f"{rel}.{f.f_code.co_name}"
            slf = f.f_locals.get("self")
            if slf is not None:
                cn = type(slf).__name__
                if (
                    filt is None
                    and cn == "Filter"
                    and f.f_code.co_name.startswith("evaluate")
                    and isinstance(getattr(slf, "name", None), str)
                ):
                    filt = slf.name
                if node is None and cn.endswith("Node") and len(cn) > 4:
                    node = cn[:-4].lower()
        f = f.f_back
    return (filt or node or where), where


class Universe:
    """The four data layers for O1 plus the mutation log and the snapshots."""

    def __init__(self, dataseed: str, permit: bool, plain: bool = False):
        self.dataseed = dataseed
        self.permit = permit
        # plain: the layers are built from exact builtin list / dict objects (no logging subclass), so code
        # guarded by `type(x) is list` fast paths sees what a caller's ordinary data looks like (seed
        # c10-10A); mutations are then found by the deep diff against the snapshot only
        self.plain_containers = plain
        self.events: list[tuple[str, str, str, str | None, str | None]] = []
        self.layers: dict[str, Any] = {}
        rng = random.Random(dataseed)
        for layer in LAYERS:
            raw = _raw_layer(PREFIX[layer], rng)
            self.layers[layer] = self._freeze(raw, layer, PREFIX[layer] + "*")
        self.plain = {k: copy.deepcopy(_sans_iters(v)) for k, v in self.layers.items()}
        self.canon = {k: canon(_sans_iters(v)) for k, v in self.layers.items()}
        self.iter_states = self._iter_states()
        self.dirty = False
        for k in LAYERS:  # the snapshot itself must be faithful
            assert canon(self.plain[k]) == self.canon[k]
            assert type(self.plain[k]) is dict

    def _freeze(self, o: Any, layer: str, label: str) -> Any:
        if self.plain_containers:
            if isinstance(o, list):
                return [self._freeze(x, layer, label) for x in o]
            if isinstance(o, tuple):
                return tuple(self._freeze(x, layer, label) for x in o)
            if type(o) is dict:
                return {k: self._freeze(v, layer, label) for k, v in o.items()}
            return o
        if isinstance(o, list):
            r = FrozenList(
                self._freeze(x, layer, f"{label}[{i}]") for i, x in enumerate(o)
            )
            r.__dict__["_vf"] = (self, layer, label)
            return r
        if isinstance(o, tuple):
            return tuple(self._freeze(x, layer, f"{label}[{i}]") for i, x in enumerate(o))
        if type(o) is dict:
            d = FrozenDict(
                (k, self._freeze(v, layer, k if label.endswith("*") else f"{label}.{k}"))
                for k, v in o.items()
            )
            d.__dict__["_vf"] = (self, layer, label)
            return d
        return o

    def _iter_states(self) -> dict[tuple[str, str], Any]:
        return {(layer, k): _iter_state(v) for layer, d in self.layers.items()
                for k, v in dict.items(d) if _is_iter_name(k)}

    def consumed(self) -> list[tuple[str, str]]:
        """(layer, name) of every iterator whose position moved since the snapshot."""
        now = self._iter_states()
        return [k for k, st in self.iter_states.items() if now.get(k) != st]

    def record(self, layer: str, label: str, method: str) -> None:
        subj, where = _stack_subject()
        self.events.append((layer, label, method, subj, where))
        if self.permit:
            self.dirty = True

    def diff(self) -> list[tuple[str, str, str]]:
        """[(layer, description)] for every layer that is no longer equal to its snapshot."""
        out = []
        for layer in LAYERS:
            now = _sans_iters(self.layers[layer])
            same = canon(now) == self.canon[layer]
            try:
                eq = self.plain[layer] == now
            except Exception as e:  # noqa: BLE001
                eq = False
                same = False
                out.append((layer, f"equality raised {type(e).__name__}", ""))
                continue
            if same and eq:
                continue
            desc = "changed"
            changed = ""
            before = self.plain[layer]
            keys = list(dict.keys(before))
            nowkeys = list(dict.keys(now))
            if keys != nowkeys:
                desc = f"top-level names {keys} -> {nowkeys}"
            else:
                names = [k for k in keys
                         if canon(before[k]) != canon(dict.__getitem__(now, k))]
                if names:
                    k = names[0]
                    desc = (f"{k}: {before[k]!r} -> {dict.__getitem__(now, k)!r}"[:300]
                            + f" (changed names: {names})")
                    changed = k if all(
                        n.split("_", 1)[-1] in VIVIFY_RELS for n in names) else ""
            out.append((layer, desc, changed))
        return out


def _mk_mutator(base: type, name: str):  # noqa: ANN202
    orig = getattr(base, name)

    def method(self, *a, **k):  # noqa: ANN001, ANN002, ANN003, ANN202
        vf = self.__dict__.get("_vf")
        if vf is None:
            return orig(self, *a, **k)
        uni, layer, label = vf
        uni.record(layer, label, name)
        if uni.permit:
            return orig(self, *a, **k)
        raise MutationRefused(f"{label}.{name}(): caller data is read-only")

    method.__name__ = name
    return method


LIST_MUTATORS = (
    "append", "extend", "insert", "remove", "pop", "clear", "sort", "reverse",
    "__setitem__", "__delitem__", "__iadd__", "__imul__",
)
DICT_MUTATORS = (
    "__setitem__", "__delitem__", "pop", "popitem", "clear", "update", "setdefault",
    "__ior__",
)


class FrozenList(list):
    """A list that logs (and by default refuses) every mutating method call."""

    def __deepcopy__(self, memo: dict) -> list:  # noqa: ANN001
        return [copy.deepcopy(x, memo) for x in self]

    def __copy__(self) -> list:
        return list(self)

    def __reduce_ex__(self, protocol: int):  # noqa: ANN204, ARG002
        return (list, (list(self),))


class FrozenDict(dict):
    """A dict that logs (and by default refuses) every mutating method call."""

    def __deepcopy__(self, memo: dict) -> dict:  # noqa: ANN001
        return {copy.deepcopy(k, memo): copy.deepcopy(v, memo) for k, v in self.items()}

    def __copy__(self) -> dict:
        return dict(self)

    def __reduce_ex__(self, protocol: int):  # noqa: ANN204, ARG002
        return (dict, (dict(self),))


for _n in LIST_MUTATORS:
    setattr(FrozenList, _n, _mk_mutator(list, _n))
for _n in DICT_MUTATORS:
    setattr(FrozenDict, _n, _mk_mutator(dict, _n))


def canon(o: Any) -> Any:
    """Structural fingerprint: list order, dict insertion order and types matter."""
    if isinstance(o, list):
        return ("list", tuple(canon(x) for x in list.__iter__(o)))
    if isinstance(o, tuple):
        return ("tuple", tuple(canon(x) for x in o))
    if isinstance(o, dict):
        return ("dict", tuple((canon(k), canon(v)) for k, v in dict.items(o)))
    if isinstance(o, float):
        return ("float", repr(o))
    if o is None or isinstance(o, (bool, int, str)):
        return (type(o).__name__, o)
    return (type(o).__name__, repr(o))


class Vivifying(dict):
    """A dict subclass whose __missing__ inserts the key (like defaultdict)."""

    def __missing__(self, key: Any) -> Any:
        self[key] = v = []
        return v


VIVIFY_RELS = ("dd", "viv", "counter", "chain")
# one-shot iterators as caller data: reading them consumes them by Python semantics, so a
# consumed iterator is reported as a diagnostic, not as a change of caller data
ITER_RELS = ("gen", "it")


def _is_iter_name(k: object) -> bool:
    return isinstance(k, str) and k.split("_", 1)[-1] in ITER_RELS


def _iter_state(o: Any) -> Any:
    if inspect.isgenerator(o):
        fr = o.gi_frame
        return ("generator", inspect.getgeneratorstate(o), fr.f_lasti if fr else None)
    return (type(o).__name__, operator.length_hint(o, -1))


def _sans_iters(d: Any) -> dict[str, Any]:
    return {k: v for k, v in dict.items(d) if not _is_iter_name(k)}


def _raw_layer(p: str, rng: random.Random) -> dict[str, Any]:
    nums = [3, 1, 2, 3, -5, 10]
    strs = ["b", "A", "c10", "c9", "a", "b"]
    rng.shuffle(nums)
    rng.shuffle(strs)
    if sorted(nums) == nums:
        nums.reverse()
    if sorted(strs) == strs:
        strs.reverse()
    k = rng.randrange(1, 4)
    objs = [
        {"k": 2, "t": ["b", "a"], "n": None, "title": "Zed"},
        {"k": 1, "t": ["c"], "n": 5, "title": "alpha"},
        {"k": 2, "t": [], "z": 0},
        {"k": 3 + k, "t": ["d", "d", "c"], "n": None, "title": "Mid"},
    ]
    return {
        f"{p}_nums": nums,
        f"{p}_strs": strs,
        f"{p}_mixed": [None, 2, None, "x", 1.5, True, 2],
        f"{p}_objs": objs,
        f"{p}_nest": [[3, 1], [2, [9, 8]], [], [1, 0]],
        f"{p}_map": {
            "items": [5, 4, 6 + k],
            "inner": {"deep": ["y", "x", "z"], "m": {"a": 1, "b": [2, 1]}},
            "title": "T" + p,
            "list_of_maps": [{"k": 1}, {"k": 0}, {"k": 1}],
        },
        f"{p}_tup": ([2, 1], "x", (3, [7, 6])),
        f"{p}_empty": [],
        f"{p}_emap": {},
        # mappings that (may) create entries when a missing key is read
        f"{p}_dd": collections.defaultdict(list, {"a": [1], "b": [2, 1]}),
        f"{p}_viv": Vivifying({"a": [1], "b": [2, 1]}),
        f"{p}_counter": collections.Counter({"a": 2, "b": 1}),
        f"{p}_chain": collections.ChainMap({"a": [1]}, {"b": [2, 1]}),
        f"{p}_gen": (x for x in [3, 1, 2]),
        f"{p}_it": iter(["b", "a", "c"]),
        f"{p}_s": f"hello, {p} world",
        f"{p}_i": 7 + k,
        f"{p}_f": 2.5,
        f"{p}_none": None,
        f"{p}_t": True,
    }


RELS = [
    "nums", "strs", "mixed", "objs", "nest", "map", "tup", "empty", "emap",
    "nest[0]", "nest[1][1]", "nest.last", "map.items", "map.inner.deep", "map.inner",
    "map.inner.m.b", "map.list_of_maps", "objs[0].t", "objs[0]", "objs.first.t",
    "objs[3].t", "tup[0]", "tup[2][1]", "objs[1]",
]
PATHS = [f"{PREFIX[layer]}_{rel}" for rel in RELS for layer in LAYERS]


# ---------------------------------------------------------------------------------------
# loader with matter (public API: BaseLoader.get_source returning TemplateSource)
# ---------------------------------------------------------------------------------------


def _make_loader_class():  # noqa: ANN202
    from liquid2 import DictLoader
    from liquid2 import TemplateNotFoundError
    from liquid2.loader import TemplateSource

    class MatterLoader(DictLoader):
        def __init__(self, templates: dict[str, str], matter: dict[str, Any]):
            super().__init__(templates)
            self.matter = matter

        def get_source(self, env, template_name, *, context=None, **kwargs):  # noqa: ANN001, ANN003, ANN202, ARG002
            try:
                source = self.templates[template_name]
            except KeyError as err:
                raise TemplateNotFoundError(template_name) from err
            return TemplateSource(
                source=source,
                name=template_name,
                uptodate=None,
                matter=self.matter.get(template_name),
            )

    return MatterLoader


# ---------------------------------------------------------------------------------------
# O1 workload
# ---------------------------------------------------------------------------------------

ARGFORMS = [
    "", ": 'k'", ": 'k', 2", ": 't'", ": 'title'", ": 1", ": 1, 2", ": -2, 2", ": {Q}",
    ": 'k', {Q}", ": {Q}, {Q}", ": i => i.k", ": i => i", ": (i, j) => i.k == 2",
    ": i => i.t", ": i => i.n == nil", ": ','", ": {S}", ": {I}", ": nosuch",
    ": {Q}, allow_false: true", ": indent: 2", ": 'a', 'b', 2",
]
PROBE_RELS = ("nums", "objs", "map", "nest", "strs", "mixed")

# access forms: how the container reaches the filter.  {P} path, {F} "name: args".
ACCESS: dict[str, tuple[str, dict[str, str]]] = {
    "direct": ("{{ {P} | {F} }}", {}),
    "assign": (
        "{% assign x = {P} %}{{ x | {F} }}{% assign x = x | {F} %}{{ x | json }}"
        "{% assign x = {P} %}{% assign x = x | concat: {P} %}{{ x | {F} | json }}",
        {},
    ),
    "default": ("{% assign x = nosuch | default: {P} %}{{ x | {F} }}{{ x | {F} | {F} }}", {}),
    "with": ("{% with x: {P}, y: {Q} %}{{ x | {F} }}{% assign x = x | {F} %}{{ x }}{% endwith %}", {}),
    "macro": ("{% macro m x %}{{ x | {F} }}{% endmacro %}{% call m {P} %}{% call m x: {P} %}", {}),
    "macro_excess": (
        "{% macro m y, x: {P} %}{{ x | {F} }}{{ args | {F} }}{{ args[0] | {F} }}"
        "{{ kwargs.z | {F} }}{% endmacro %}{% call m 1 %}{% call m 1, {Q}, {P}, z: {P} %}",
        {},
    ),
    "include_with": ("{% include 'body' with {P} as x %}", {"body": "{{ x | {F} }}"}),
    "include_kw": ("{% include 'body', x: {P} %}", {"body": "{{ x | {F} }}{% assign x = x | {F} %}"}),
    "include_for": ("{% include 'body' for {P} as x %}", {"body": "{{ x | {F} }}"}),
    "render_with": ("{% render 'body' with {P} as x %}", {"body": "{{ x | {F} }}"}),
    "render_kw": ("{% render 'body', x: {P}, y: {Q} %}", {"body": "{{ x | {F} }}{{ y | {F} }}"}),
    "render_for": ("{% render 'body' for {P} as x %}", {"body": "{{ x | {F} }}{{ forloop.index }}"}),
    "render_global": ("{% render 'body' %}", {"body": "{{ {P} | {F} }}{% assign z = {P} | {F} %}"}),
    "for_item": ("{% for x in {P} %}{{ x | {F} }}{% endfor %}", {}),
    "for_nested": ("{% for x in {P} %}{% for y in x %}{{ y | {F} }}{% endfor %}{% endfor %}", {}),
    "ternary": ("{{ {P} if true else nosuch || {F} }}|{{ nosuch if false else {P} | {F} }}", {}),
    "first": ("{% assign x = {P} | first %}{{ x | {F} }}{% assign y = {P} | last %}{{ y | {F} }}", {}),
    "arrlit": ("{% assign x = {P}, {Q} %}{{ x | first | {F} }}{{ x | {F} }}{{ {P}, 1 | {F} }}", {}),
    "echo": ("{% echo {P} | {F} %}", {}),
    "liquid": ("{% liquid\nassign x = {P}\nassign x = x | {F}\necho x\n%}", {}),
    "capture": ("{% capture c %}{{ {P} | {F} }}{% endcapture %}{{ c | size }}", {}),
    "twice": ("{{ {P} | {F} | {F} }}{{ {P} | {F} | json }}", {}),
    "tablerow_item": ("{% tablerow x in {P} cols: 2 %}{{ x | {F} }}{% endtablerow %}", {}),
    "block": (
        "{% extends 'base' %}{% block b %}{{ {P} | {F} }}{% endblock %}",
        {"base": "<{% block b %}{% endblock %}>{{ {P} | {F} }}"},
    ),
}
ACCESS_KEYS = list(ACCESS)

TAGFORMS: dict[str, tuple[str, dict[str, str]]] = {
    "for": ("{% for x in {P} %}{{ x }}{{ forloop.index }}{{ forloop.rindex0 }}{% endfor %}", {}),
    "for-limit-offset": ("{% for x in {P} limit: 2 offset: 1 %}{{ x }}{% else %}e{% endfor %}", {}),
    "for-reversed": ("{% for x in {P} reversed %}{{ x }}{% endfor %}{{ {P} | json }}", {}),
    "for-reversed-limit": ("{% for x in {P} reversed limit: 3 offset: 1 %}{{ x }}{% endfor %}", {}),
    "for-continue": (
        "{% for x in {P} limit: 2 %}{{ x }}{% endfor %}{% for x in {P} offset: continue %}{{ x }}{% endfor %}"
        "{% for x in {P} offset: continue reversed %}{{ x }}{% endfor %}",
        {},
    ),
    "for-break": (
        "{% for x in {P} %}{% if forloop.index == 2 %}{% break %}{% endif %}{{ x }}{% continue %}z{% endfor %}",
        {},
    ),
    "for-nested": (
        "{% for x in {P} %}{% for y in {Q} reversed limit: 2 %}{{ forloop.parentloop.index }}{{ y }}{% endfor %}{% endfor %}",
        {},
    ),
    "for-fail-inside": (
        "{% for x in {P} reversed %}{{ x }}{% if forloop.index == 2 %}{{ 1 | divided_by: 0 }}{% endif %}{% endfor %}",
        {},
    ),
    "for-assign-var": ("{% for x in {P} %}{% assign x = 'shadow' %}{{ x }}{% endfor %}{{ {P} }}", {}),
    "cycle": ("{% for i in (1..4) %}{% cycle {P}[0], {P}[1], {Q} %}{% endfor %}{% cycle 'g': {P}, {Q} %}", {}),
    "include-for": ("{% include 'q' for {P} as item %}|{% include 'q' for {P} %}", {"q": "({{ item }}{{ q }})"}),
    "include-with": ("{% include 'q' with {P} as item %}|{% include 'q' with {P} %}|{% include 'q', item: {P}, q: {Q} %}",
                     {"q": "({{ item | reverse }}{{ q | sort }}{% assign item = 1 %}{% assign q = 2 %})"}),
    "render-for": ("{% render 'q' for {P} as item %}|{% render 'q' for {P} %}",
                   {"q": "({{ item }}{{ q }}{{ forloop.index }}{% assign item = 1 %})"}),
    "render-with": ("{% render 'q' with {P} as item %}|{% render 'q' with {P} %}|{% render 'q', item: {P}, q: {Q} %}",
                    {"q": "({{ item | reverse }}{{ q | sort }}{% assign q = 2 %})"}),
    "render-fail-inside": ("{% render 'q' for {P} as item %}", {"q": "{{ item }}{% if forloop.index == 2 %}{% render 'c10-missing' %}{% endif %}"}),
    "tablerow": ("{% tablerow x in {P} cols: 2 %}{{ x }}{{ tablerowloop.col }}{% endtablerow %}", {}),
    "tablerow-limit": ("{% tablerow x in {P} cols: 2 limit: 3 offset: 1 %}{{ x }}{% endtablerow %}"
                       "{% tablerow x in {P} reversed %}{{ x }}{% endtablerow %}", {}),
    "if": ("{% if {P} contains 3 %}a{% endif %}{% if 'k' in {P} %}b{% endif %}{% if {P} == {Q} %}c{% endif %}"
           "{% if {P} != empty and {P} %}d{% endif %}{% unless {P} == blank %}e{% endunless %}", {}),
    "if-order": ("{% if {P} < {Q} %}a{% endif %}", {}),
    "case": ("{% case {P} %}{% when {Q} %}q{% when {P}, 1 %}p{% else %}e{% endcase %}", {}),
    "with": ("{% with a: {P}, b: {Q} %}{{ a }}{{ b | size }}{% assign a = 1 %}{% capture b %}x{% endcapture %}{{ a }}{{ b }}{% endwith %}{{ a }}", {}),
    "macro": ("{% macro m a, b: {Q} %}{{ a }}{{ b }}{{ args }}{{ kwargs }}{% assign a = 1 %}{% endmacro %}"
              "{% call m {P} %}{% call m b: {P}, a: {Q} %}{% call m {P}, {Q}, {P}, z: {P} %}", {}),
    "translate": ("{% translate a: {P}, count: {P}.size %}one {{ a }}{% plural %}many {{ a }} {{ count }}{% endtranslate %}", {}),
    "output": ("{{ {P} }}{{ {P} | json }}{{ {P}.first }}{{ {P}.last }}{{ {P}.size }}{{ {P}[0] }}{{ {P}[-1] }}{{ {P}['k'] }}{{ {P}.nosuch }}", {}),
    "template-string": ("{{ \"a${{P}}b${{P} | size}\" }}{{ '${{Q}}' | size }}", {}),
    "array-literal": ("{% assign arr = {P}, {Q}, 1 %}{{ arr | size }}{{ arr }}{% for x in {P}, {Q} %}{{ x }}{% endfor %}", {}),
    "range": ("{% for i in (1..{P}.size) %}{{ {P}[i] }}{% endfor %}", {}),
    "extends": ("{% extends 'base' %}{% block b %}{{ {P} }}{{ block.super }}{% for x in {P} reversed %}{{ x }}{% endfor %}{% endblock %}",
                {"base": "{% block b %}{{ {Q} }}{% endblock %}{% assign z = {P} %}{{ z | size }}"}),
    "shadow-assign": ("{% assign {ROOT} = {P} | size %}{{ {ROOT} }}{% capture {QROOT} %}x{{ {Q} }}{% endcapture %}{{ {QROOT} | size }}", {}),
    "shadow-counter": ("{% increment {ROOT} %}{% decrement {ROOT} %}{% increment {QROOT} %}{{ {ROOT} | json }}{{ {QROOT} | size }}", {}),
    "shadow-loopvar": ("{% for {ROOT} in {Q} %}{{ {ROOT} }}{% endfor %}{% with {ROOT}: 1 %}{{ {ROOT} }}{% endwith %}{{ {P} | size }}", {}),
    "shadow-partial": ("{% include 'q' %}{% render 'q' %}{{ {P} | size }}", {"q": "{% assign {ROOT} = 'z' %}{% increment {QROOT} %}{{ {ROOT} }}"}),
}
SHOPIFY_ONLY_FORMS = {"tablerow", "tablerow-limit", "tablerow_item"}

FAIL_SUFFIXES = [
    "{% render 'c10-missing' %}",
    "{{ 1 | divided_by: 0 }}",
    "{% include 'c10-missing' %}",
    "{% break %}",
]

APIS = [
    ("get_template", "sync", "kwargs"),
    ("from_string", "async", "kwargs"),
    ("get_template_async", "async", "dict"),
    ("from_string", "sync", "dict"),
]


ALL_APIS = [
    (a, m, st)
    for a in ("get_template", "get_template_async", "from_string")
    for m in ("sync", "async")
    for st in ("kwargs", "dict")
]


def _root_of(path: str) -> str:
    return re.split(r"[.\[]", path, maxsplit=1)[0]


def _fill(tpl: str, P: str, Q: str, F: str = "") -> str:  # noqa: N803
    lay = P[0]
    return (
        tpl.replace("{P}", P)
        .replace("{QROOT}", _root_of(Q))
        .replace("{ROOT}", _root_of(P))
        .replace("{Q}", Q)
        .replace("{F}", F)
        .replace("{S}", f"{lay}_s")
        .replace("{I}", f"{lay}_i")
    )


class O1:
    def __init__(self, ctx: Ctx, dataseed: str, permit: bool, plain: bool = False):
        self.plain = plain
        from liquid2 import Environment
        from liquid2.exceptions import LiquidError
        from liquid2.shopify import Environment as ShopifyEnvironment

        self.ctx = ctx
        self.LiquidError = LiquidError
        self.Environment = Environment
        self.ShopifyEnvironment = ShopifyEnvironment
        self.Loader = _make_loader_class()
        self.dataseed = dataseed
        self.permit = permit
        self.last_status = ""
        self._good: dict[str, list[int]] = {}
        self._culprits: dict[tuple[str, str], str | None] = {}
        self.consumed_samples: list[dict[str, Any]] = []
        self.reset()

    def reset(self) -> None:
        self.U = Universe(self.dataseed, self.permit, self.plain)
        self.envs: dict[str, Any] = {}
        for kind, cls in (("std", self.Environment), ("shopify", self.ShopifyEnvironment)):
            loader = self.Loader({}, {})
            self.envs[kind] = cls(loader=loader, globals=self.U.layers["env"])

    def good_argforms(self, fname: str, kind: str) -> list[int]:
        """Argument forms with which *fname* ran to completion on some container
        (observed by running them; these probe runs are ordinary monitored cases)."""
        got = self._good.get(fname)
        if got is None:
            got = []
            for ai, form in enumerate(ARGFORMS):
                for ri, rel in enumerate(PROBE_RELS):
                    P = f"{PREFIX[LAYERS[(ai + ri) % 4]]}_{rel}"  # noqa: N806
                    Q = f"{PREFIX[LAYERS[(ai + ri + 1) % 4]]}_nums"  # noqa: N806
                    F = fname + _fill(form, P, Q)  # noqa: N806
                    self.execute(_case(fname, _fill("{{ {P} | {F} }}", P, Q, F), {}, ai + ri, kind))
                    if self.last_status == "ok":
                        got.append(ai)
                        self.ctx.seen("filters_applied", fname)
                        break
            self._good[fname] = got
        return got

    def filter_names(self) -> list[tuple[str, str]]:
        std = self.envs["std"].filters
        return [
            (name, "std" if name in std else "shopify")
            for name in sorted(self.envs["shopify"].filters)
        ]

    # -- one execution under the monitor ---------------------------------------------
    def execute(self, case: dict[str, Any], record: bool = True) -> list[str]:
        ctx = self.ctx
        U = self.U  # noqa: N806
        env = self.envs[case.get("envkind", "std")]
        tpls = dict(case["templates"])
        env.loader.templates = tpls
        env.loader.matter = {"root": U.layers["matter"]}
        api, mode, style = case["api"], case["mode"], case["args"]
        parsed = False
        status = "ok"
        err: BaseException | None = None
        try:
            if api == "from_string":
                t = env.from_string(
                    tpls["root"], name="root", globals=U.layers["tmpl"],
                    overlay_data=U.layers["matter"],
                )
            elif api == "get_template":
                t = env.get_template("root", globals=U.layers["tmpl"])
            else:
                t = drive(env.get_template_async("root", globals=U.layers["tmpl"]))
            parsed = True
            args = U.layers["args"]
            if mode == "sync":
                t.render(**args) if style == "kwargs" else t.render(args)
            elif style == "kwargs":
                drive(t.render_async(**args))
            else:
                drive(t.render_async(args))
        except self.LiquidError as e:
            status = "liquid_error"
            err = e
        except RecursionError as e:
            status = "other_error"
            err = e
        except Exception as e:  # noqa: BLE001  (C02's subject, not C10's; data still compared)
            status = "other_error"
            err = e

        self.last_status = status
        keys: list[str] = []
        subject = case.get("subject", "?")
        events = list(U.events)
        U.events.clear()
        logged_layers = set()
        wit_base = None
        if events or record:
            wit_base = {
                "o": "O1", "templates": tpls, "api": api, "mode": mode, "args": style,
                "envkind": case.get("envkind", "std"), "subject": subject,
                "dataseed": U.dataseed, "permit": U.permit, "plain": U.plain_containers,
                "status": status + (f":{type(err).__name__}" if err else ""),
            }
        for layer, label, method, subj, where in events:
            logged_layers.add(layer)
            key = f"mutation:{subj or subject}:{method}:{layer}"
            if key not in keys:
                keys.append(key)
                if record:
                    ctx.violation(
                        key,
                        f"{where or subj or subject} called {method}() on caller data "
                        f"{label} (layer {layer}); render status {status}",
                        dict(wit_base, event=[layer, label, method, subj, where]),
                    )
        diffs = U.diff()
        for layer, desc, changed in diffs:
            if layer in logged_layers:
                continue  # already reported with the precise method
            how, lay = "deep-diff", layer
            if changed:
                # only mappings whose __missing__ inserts the key changed: the object
                # itself grows when a missing key is read (one mechanism, any layer)
                how, lay = "deep-diff(auto-vivify)", "any-layer"
            culprit = None
            if record:
                ck = (subject, how)
                if ck not in self._culprits:
                    self._culprits[ck] = self.attribute(case)
                culprit = self._culprits[ck] if changed else self.attribute(case)
            key = f"mutation:{culprit or subject}:{how}:{lay}"
            keys.append(key)
            if record:
                ctx.violation(
                    key,
                    f"layer {layer} differs from its snapshot after a render "
                    f"(status {status}): {desc}",
                    dict(wit_base, diff=[layer, desc]),
                )
        if record:
            ctx.ev()
            ctx.count("deep_comparisons")
            ctx.count("renders_" + status)
            if status != "ok":
                ctx.count("deep_comparisons_after_failure")
                if parsed:
                    ctx.count("failed_mid_render")
            if err is not None and status == "other_error":
                ctx.seen("non_liquid_errors(not C10's subject)", type(err).__name__)
            if parsed:
                ctx.nt(sorted(tpls.items()), api, mode, style, U.dataseed)
                ctx.count("cases_with_container_flow")
        cons = U.consumed()
        if cons and record:
            ctx.count("iterator_consumed(diagnostic)")
            ctx.seen("iterator_consumers(diagnostic)", subject)
            if len(self.consumed_samples) < 3:
                self.consumed_samples.append({"templates": tpls, "consumed": cons})
        if diffs or U.dirty or cons:
            self.reset()
        return keys

    # -- which filter/tag changed the data (only run after a deep-diff) ---------------
    def attribute(self, case: dict[str, Any]) -> str | None:
        from liquid2.ast import Node
        from liquid2.builtin.expressions import Filter

        probe = O1(Ctx(self.ctx.prop, self.ctx.tier, self.ctx.seed), self.dataseed, True)
        U = probe.U  # noqa: N806
        found: list[str] = []
        state = {"canon": {k: canon(v) for k, v in U.layers.items()}}

        def changed() -> bool:
            now = {k: canon(v) for k, v in U.layers.items()}
            if now != state["canon"]:
                state["canon"] = now
                return True
            return False

        saved = {
            (Filter, "evaluate"): Filter.evaluate,
            (Filter, "evaluate_async"): Filter.evaluate_async,
            (Node, "render"): Node.render,
            (Node, "render_async"): Node.render_async,
        }

        def name_of(slf: Any) -> str:
            if isinstance(slf, Filter):
                return slf.name
            cn = type(slf).__name__
            return cn[:-4].lower() if cn.endswith("Node") and len(cn) > 4 else cn

        stack: list[str] = []

        def enter(slf: Any) -> None:
            # a change seen when a child starts happened in the enclosing node/filter
            # (e.g. while a tag evaluated its own expression)
            if changed():
                found.append(stack[-1] if stack else "template")
            stack.append(name_of(slf))

        def leave() -> None:
            nm = stack.pop()
            if changed():
                found.append(nm)

        def wrap_sync(orig):  # noqa: ANN001, ANN202
            def w(slf, *a, **k):  # noqa: ANN001, ANN002, ANN003, ANN202
                enter(slf)
                try:
                    return orig(slf, *a, **k)
                finally:
                    leave()
            return w

        def wrap_async(orig):  # noqa: ANN001, ANN202
            async def w(slf, *a, **k):  # noqa: ANN001, ANN002, ANN003, ANN202
                enter(slf)
                try:
                    return await orig(slf, *a, **k)
                finally:
                    leave()
            return w

        try:
            Filter.evaluate = wrap_sync(saved[(Filter, "evaluate")])
            Filter.evaluate_async = wrap_async(saved[(Filter, "evaluate_async")])
            Node.render = wrap_sync(saved[(Node, "render")])
            Node.render_async = wrap_async(saved[(Node, "render_async")])
            probe.execute(case, record=False)
        except Exception:  # noqa: BLE001
            pass
        finally:
            for (cls, attr), fn in saved.items():
                setattr(cls, attr, fn)
        return found[0] if found else None


def _case(subject: str, root: str, partials: dict[str, str], idx: int, envkind: str = "std",
          fail: str | None = None) -> dict[str, Any]:
    api, mode, style = APIS[idx % len(APIS)]
    tpls = {"root": root + (fail or "")}
    tpls.update(partials)
    return {"subject": subject, "templates": tpls, "api": api, "mode": mode, "args": style,
            "envkind": envkind}


def _filter_cases(o1: "O1", filters: list[tuple[str, str]], tier: str, shard_i: int,
                  shard_n: int) -> Iterator[dict[str, Any]]:
    npaths = len(PATHS)
    for fi, (fname, kind) in enumerate(filters):
        if fi % shard_n != shard_i:
            continue
        good = o1.good_argforms(fname, kind) or list(range(len(ARGFORMS)))
        # (a) every filter x every container path, direct access
        for pi, P in enumerate(PATHS):  # noqa: N806
            forms = range(len(ARGFORMS)) if tier != "quick" else [good[(pi + fi) % len(good)]]
            for ai in forms:
                Q = PATHS[(pi * 5 + ai * 3 + 1) % npaths]  # noqa: N806
                F = fname + _fill(ARGFORMS[ai], P, Q)  # noqa: N806
                root, parts = ACCESS["direct"]
                yield _case(fname, _fill(root, P, Q, F), parts, pi + ai + fi, kind)
        # (a2) quick tier: every filter x every argument form it accepts x the container shapes (flat list of
        # numbers / strings / mixed / mappings, nested list, mapping); (a) gives each path only ONE form in the
        # quick tier, so e.g. `objs | sort_numeric: 'k'` (string key on a flat list of mappings, seed c10-10A)
        # was only reached by the thorough tier's full cross product
        if tier == "quick":
            for ai in good:
                for ri, rel in enumerate(("objs", "nums", "strs", "mixed", "map.list_of_maps", "map.items", "nest")):
                    P = f"{PREFIX[LAYERS[(ai + ri + fi) % len(LAYERS)]]}_{rel}"  # noqa: N806
                    Q = PATHS[(ai * 3 + ri * 5 + fi) % npaths]  # noqa: N806
                    F = fname + _fill(ARGFORMS[ai], P, Q)  # noqa: N806
                    root, parts = ACCESS["direct"]
                    yield _case(fname, _fill(root, P, Q, F), parts, ai + ri + fi, kind)
        # (b) every filter x every argument form x aliases
        for ai, form in enumerate(ARGFORMS):
            base = fi * 31 + ai * 7
            if tier != "quick":
                k = len(ACCESS_KEYS)
            else:
                k = 5 if ai in good else 1
            for j in range(k):
                acc = ACCESS_KEYS[(base + j) % len(ACCESS_KEYS)]
                if acc == "direct":
                    acc = "twice"
                npath = 1 if tier == "quick" else 6
                for r in range(npath):
                    P = PATHS[(base * 3 + j * 13 + r * 29) % npaths]  # noqa: N806
                    Q = PATHS[(base + j * 17 + r * 7 + 2) % npaths]  # noqa: N806
                    F = fname + _fill(form, P, Q)  # noqa: N806
                    root, parts = ACCESS[acc]
                    ek = "shopify" if acc in SHOPIFY_ONLY_FORMS else kind
                    fail = FAIL_SUFFIXES[(base + j) % len(FAIL_SUFFIXES)] if (base + j + r) % 3 == 0 else None
                    if acc == "block":
                        fail = None
                    yield _case(
                        fname, _fill(root, P, Q, F),
                        {n: _fill(s, P, Q, F) for n, s in parts.items()},
                        base + j + r, ek, fail,
                    )


def _tag_cases(tier: str, shard_i: int, shard_n: int) -> Iterator[dict[str, Any]]:
    npaths = len(PATHS)
    for pi, P in enumerate(PATHS):  # noqa: N806
        if pi % shard_n != shard_i:
            continue
        for ti, (tname, (root, parts)) in enumerate(TAGFORMS.items()):
            qs = [PATHS[(pi * 3 + ti * 5 + 1) % npaths]]
            if tier != "quick":
                qs += [PATHS[(pi * 7 + ti + 11) % npaths], PATHS[(pi + ti * 13 + 40) % npaths]]
            for qi, Q in enumerate(qs):  # noqa: N806
                ek = "shopify" if tname in SHOPIFY_ONLY_FORMS else "std"
                fail = None
                if (pi + ti + qi) % 4 == 0 and tname != "extends":
                    fail = FAIL_SUFFIXES[(pi + ti) % len(FAIL_SUFFIXES)]
                yield _case(
                    tname.split("-")[0] if not tname.startswith("shadow") else tname,
                    _fill(root, P, Q),
                    {n: _fill(s, P, Q) for n, s in parts.items()},
                    pi + ti + qi, ek, fail,
                )


def _chain_cases(o1: "O1", filters: list[tuple[str, str]], rng: random.Random, n: int) -> Iterator[dict[str, Any]]:
    std = [f for f, k in filters if k == "std"]
    seqf = [f for f in std if f in {
        "sort", "sort_natural", "sort_numeric", "reverse", "concat", "uniq", "compact", "map",
        "where", "reject", "slice", "first", "last", "find", "default", "join", "sum", "has",
        "find_index", "size", "json", "split"}]
    s2s = [f for f in seqf if f in {
        "sort", "sort_natural", "sort_numeric", "reverse", "uniq", "compact", "concat", "where",
        "reject", "map", "slice", "default"}]
    for i in range(n):
        stmts = []
        partials: dict[str, str] = {}
        subject = "chain"
        for _ in range(rng.randrange(1, 4)):
            P = rng.choice(PATHS)  # noqa: N806
            Q = rng.choice(PATHS)  # noqa: N806
            chain = []
            nf = rng.randrange(2, 4)
            for ci in range(nf):
                if ci < nf - 1:
                    f = rng.choice(s2s)
                else:
                    f = rng.choice(seqf if rng.random() < 0.8 else std)
                good = o1.good_argforms(f, "std") if f in seqf else []
                form = ARGFORMS[rng.choice(good)] if good and rng.random() < 0.9 else rng.choice(ARGFORMS)
                chain.append(f + _fill(form, P, Q))
                subject = f
            F = " | ".join(chain)  # noqa: N806
            acc = rng.choice([a for a in ACCESS_KEYS if a not in SHOPIFY_ONLY_FORMS and a != "block"])
            root, parts = ACCESS[acc]
            if any(k in partials for k in parts):
                continue
            stmts.append(_fill(root, P, Q, F))
            partials.update({k: _fill(s, P, Q, F) for k, s in parts.items()})
        fail = rng.choice(FAIL_SUFFIXES) if rng.random() < 0.3 else None
        yield _case(subject, "".join(stmts), partials, i, "std", fail)


VIVIFY_FORMS = {
    "path": "{{ {P}.missing }}{{ {P}['x y'] }}{{ {P}.a }}{{ {P}.a.first }}{{ {P}.nosuch.deeper }}",
    "path-size": "{{ {P}.size }}",
    "path-first": "{{ {P}.first }}{{ {P}.last }}",
    "output": "{{ {P} }}{{ {P} | json }}",
    "if": "{% if {P}.w %}a{% endif %}{% if {P} contains 'w' %}b{% endif %}{% if 'w' in {P} %}c{% endif %}"
          "{% if {P}.w == 1 %}d{% endif %}{% unless {P}.u %}e{% endunless %}",
    "case": "{% case {P}.w %}{% when 1 %}a{% else %}b{% endcase %}",
    "assign": "{% assign z = {P}.w %}{{ z }}{% capture c %}{{ {P}.w2 }}{% endcapture %}",
    "with": "{% with a: {P}.w %}{{ a }}{% endwith %}",
    "for": "{% for x in {P} %}{{ x[0] }}{% endfor %}{% for x in {P}.w %}{{ x }}{% endfor %}",
    "tablerow": "{% tablerow x in {P}.w %}{{ x }}{% endtablerow %}",
    "cycle": "{% cycle {P}.w, 1 %}",
    "include": "{% include 'q' with {P}.w as item %}{% include 'q', item: {P}.w2 %}",
    "render": "{% render 'q' with {P}.w as item %}{% render 'q', item: {P}.w2 %}",
    "macro": "{% macro m a %}{{ a }}{% endmacro %}{% call m {P}.w %}",
    "translate": "{% translate a: {P}.w %}x {{ a }}{% endtranslate %}",
    "default": "{{ {P}.w | default: 1 }}{{ {P}.w if {P}.w2 else 3 }}",
    "lambda": "{{ {P} | map: i => i.w }}{{ E_objs | map: i => {P}.w3 }}",
    "template-string": "{{ \"${{P}.w}\" }}",
    "range": "{% for i in (1..{P}.w) %}{% endfor %}",
}


def _vivify_cases(filters: list[tuple[str, str]]) -> Iterator[dict[str, Any]]:
    idx = 0
    for layer in LAYERS:
        for rel in VIVIFY_RELS + ITER_RELS:
            P = f"{PREFIX[layer]}_{rel}"  # noqa: N806
            for tname, form in VIVIFY_FORMS.items():
                idx += 1
                ek = "shopify" if tname == "tablerow" else "std"
                yield _case(tname, form.replace("{P}", P), {"q": "({{ item }})"}, idx, ek)
            for fname, kind in filters:
                for arg in ("", ": 'zz'", ": 'zz', 1", ": i => i.zz"):
                    idx += 1
                    yield _case(fname, f"{{{{ {P} | {fname}{arg} }}}}", {}, idx, kind)


def _run_o1(spec: dict[str, Any], ctx: Ctx) -> None:
    kind = spec["kind"]
    i, n, tier, seed = spec["i"], spec["n"], spec["tier"], spec["seed"]
    permit = i % 3 == 2
    plain = bool(spec.get("plain"))
    o1 = O1(ctx, f"{seed}:data:{kind}:{i}", permit or plain, plain)
    if plain:
        ctx.count("plain_container_shards")
    filters = o1.filter_names()
    if kind == "filters":
        gen = _filter_cases(o1, filters, tier, i, n)
    elif kind == "tags":
        gen = _tag_cases(tier, i, n)
    elif kind == "vivify":
        gen = _vivify_cases(filters)
    else:
        rng = random.Random(f"{seed}:chains:{i}")
        gen = _chain_cases(o1, filters, rng, 500 if tier == "quick" else 20000)
    last = None
    fnames = {f for f, _k in filters}
    for case in gen:
        o1.execute(case)
        ctx.seen("subjects", case["subject"])
        if o1.last_status == "ok" and kind == "filters" and case["subject"] in fnames:
            ctx.seen("filters_applied", case["subject"])
        if last is None or (o1.last_status == "ok" and not last.get("_ok")):
            last = dict(case, _ok=o1.last_status == "ok")
    for smp in o1.consumed_samples:
        ctx.sample({"kind": "iterator-consumed(diagnostic)", **smp}, force=True)
    if last:
        ctx.sample({"kind": kind, "subject": last["subject"], "templates": last["templates"],
                    "api": last["api"], "mode": last["mode"], "rendered_ok": last["_ok"],
                    "data_layers": {k: sorted(v)[:4] for k, v in o1.U.layers.items()}})


def _selftest(ctx: Ctx) -> None:
    """The monitors must see harness-made mutations (otherwise the shard crashes and the
    run is inconclusive): every logged method, and C-level bypasses via the deep diff."""
    trials: list[tuple[str, Any]] = []
    for m, a in (("append", (1,)), ("extend", ([1],)), ("insert", (0, 1)), ("remove", (3,)),
                 ("pop", ()), ("clear", ()), ("sort", ()), ("reverse", ()),
                 ("__setitem__", (0, 99)), ("__delitem__", (0,)), ("__iadd__", ([1],)),
                 ("__imul__", (2,))):
        trials.append(("E_nums", (m, a)))
    for m, a in (("__setitem__", ("zz", 1)), ("__delitem__", ("title",)), ("pop", ("title",)),
                 ("popitem", ()), ("clear", ()), ("update", ({"zz": 1},)),
                 ("setdefault", ("zz", 1)), ("__ior__", ({"zz": 1},))):
        trials.append(("T_map", (m, a)))
    for permit in (False, True):
        for name, (m, a) in trials:
            u = Universe("selftest", permit)
            layer = "env" if name[0] == "E" else "tmpl"
            target = u.layers[layer][name]
            try:
                getattr(target, m)(*a)
                refused = False
            except MutationRefused:
                refused = True
            assert refused != permit, (m, permit)
            assert [e[:3] for e in u.events] == [(layer, name, m)], (m, u.events)
            assert bool(u.diff()) == permit, (m, permit, u.diff())
            ctx.count("monitor_selftest_detections")
    for fn in (
        lambda u: list.sort(u.layers["matter"]["M_nums"]),
        lambda u: list.reverse(u.layers["args"]["R_objs"][0]["t"]),
        lambda u: dict.__setitem__(u.layers["env"]["E_map"]["inner"], "x", 1),
        lambda u: dict.__setitem__(u.layers["env"], "new", 1),
        # same items, different insertion order: == cannot see it, the canon must
        lambda u: (lambda d: (dict.__setitem__(d, "items", dict.pop(d, "items"))))(u.layers["tmpl"]["T_map"]),
        # same value, different type: 1 == True == 1.0
        lambda u: list.__setitem__(u.layers["tmpl"]["T_mixed"], 5, 1),
    ):
        u = Universe("selftest", False)
        assert not u.diff()
        fn(u)
        assert u.diff() and not u.events, "deep diff missed a bypassing mutation"
        ctx.count("monitor_selftest_detections")
    u = Universe("selftest", False)
    env_layer = FrozenDict(_sans_iters(u.layers["env"]))
    assert copy.deepcopy(env_layer) == u.plain["env"] and not u.events
    # one-shot iterators: consumption is seen (as a diagnostic), and is not a "diff"
    assert not u.consumed()
    next(u.layers["env"]["E_gen"])
    next(u.layers["args"]["R_it"])
    assert sorted(u.consumed()) == [("args", "R_it"), ("env", "E_gen")] and not u.diff()
    assert copy.copy(u.layers["env"]["E_nums"]) == u.plain["env"]["E_nums"] and not u.events


# ---------------------------------------------------------------------------------------
# O2: lookup precedence
# ---------------------------------------------------------------------------------------

ORDER = ["block", "local", "render-arg", "matter", "template-global", "env-global",
         "builtin", "counter"]
BIT = {"block": 1, "local": 2, "render-arg": 4, "matter": 8, "template-global": 16,
       "env-global": 32, "counter": 64}
VAL = {"block": "vB", "local": "vL", "render-arg": "vR", "matter": "vM",
       "template-global": "vT", "env-global": "vE"}
COUNTER_N = 3
DECOY = {"xO": "outer-block", "xL": "caller-local", "xB": "caller-block", "5": "caller-counter"}
NAMES = ("n", "now", "today")
# `count` is bound by {% translate count: … %}: enumerated in the translate variants only
COUNT_NAME = "count"
COUNT_VALUE = 7
PARTIAL_MATTER = "xB"  # value a partial's own matter binds the name to (pm cases)
RE_NOW = re.compile(r"^\d{4}-\d\d-\d\d \d\d:\d\d:\d\d(\.\d+)?$")
RE_TODAY = re.compile(r"^\d{4}-\d\d-\d\d$")
OPEN, CLOSE = "\u00ab", "\u00bb"

# Falsy-looking values a layer may bind the name to.  A binding to any of them is still a
# binding: the lookup must stop there (nil prints as '', but is not "undefined").
FALSY: dict[str, Any] = {"nil": None, "false": False, "zero": 0, "estr": "", "elist": [],
                         "edict": {}}
FALSY_LITERAL = {"nil": "nil", "false": "false", "zero": "0", "estr": "''"}
LOOSE = "\x00loose"  # printing a hash directly is undocumented: only "not another layer"


REDUCED_SITES = ("out", "default", "ifchain", "ifout", "isnil", "empty", "json")


def sites(N: str, only: str | None = None, extended: bool = False,  # noqa: N803
          reduced: bool = False) -> str:
    chain = "".join(
        f"{{% {'if' if j == 0 else 'elsif'} {N} == '{v}' %}}{v}"
        for j, v in enumerate(list(VAL.values()) + list(DECOY)[:3])
    )
    whens = "".join(f"{{% when '{v}' %}}{v}" for v in list(VAL.values()) + list(DECOY)[:3])
    s = [
        ("out", f"{{{{ {N} }}}}"),
        ("echo", f"{{% echo {N} %}}"),
        ("append", f"{{{{ '' | append: {N} }}}}"),
        ("default", f"{{{{ {N} | default: 'undef' }}}}"),
        ("ifchain", f"{chain}{{% elsif {N} == {COUNTER_N} %}}{COUNTER_N}{{% elsif {N} == 5 %}}5"
                    f"{{% elsif {N} %}}other{{% else %}}none{{% endif %}}"),
        ("case", f"{{% case {N} %}}{whens}{{% when {COUNTER_N} %}}{COUNTER_N}{{% when 5 %}}5"
                 f"{{% else %}}else{{% endcase %}}"),
        ("tstr", f"{{{{ \"${{{N}}}\" }}}}"),
        ("ternary", f"{{{{ {N} if {N} else 'none' }}}}"),
        ("assign", f"{{% assign c10zz = {N} %}}{{{{ c10zz }}}}"),
        ("lambda", f"{{{{ 'x' | split: ',' | map: c10i => {N} | first }}}}"),
        ("inner", f"{{% for c10q in (1..1) %}}{{{{ {N} }}}}{{% endfor %}}"),
        ("liquid", f"{{% liquid echo {N} %}}"),
        ("ifout", f"{{% if {N} %}}{{{{ {N} }}}}{{% else %}}none{{% endif %}}"),
    ]
    if extended:
        s += [
            ("isnil", f"{{% if {N} == nil %}}nil{{% else %}}notnil{{% endif %}}"),
            ("isfalse", f"{{% if {N} == false %}}false{{% else %}}notfalse{{% endif %}}"),
            ("empty", f"{{% if {N} == empty %}}empty{{% else %}}notempty{{% endif %}}"),
            ("json", f"{{{{ {N} | json }}}}"),
        ]
    if reduced and not only:
        s = [(k, body) for k, body in s if k in REDUCED_SITES]
    return "".join(f"{OPEN}{k}:{body}{CLOSE}" for k, body in s if only in (None, k))


NSITES = sites("n").count(OPEN)
NSITES_EXT = sites("n", None, True).count(OPEN)
PRINT_SITES = ("out", "echo", "append", "tstr", "assign", "lambda", "inner", "liquid")


def expected_layer(name: str, present: set[str]) -> str | None:
    for layer in ORDER:
        if layer == "builtin":
            if name in ("now", "today"):
                return layer
        elif layer in present:
            return layer
    return None


def expected_text(kind: str, layer: str | None, vals: dict[str, Any] | None = None) -> str | None:
    """Exact expected text, or None when a shape (built-in) is expected."""
    if kind == "inc":
        return str(COUNTER_N)  # one more increment continues the same counter
    if vals is not None and layer in vals and vals[layer] != VAL.get(layer):
        return str(vals[layer])  # only print sites exist where a layer's value differs
    if layer is None:
        return {"default": "undef", "ifchain": "none", "case": "else", "ternary": "none",
                "ifout": "none"}.get(kind, "")
    if layer == "builtin":
        return {"ifchain": "other", "case": "else"}.get(kind)
    if kind in ("isnil", "isfalse", "empty"):
        return "not" + {"isnil": "nil", "isfalse": "false", "empty": "empty"}[kind]
    if layer == "counter":
        return str(COUNTER_N)
    if kind == "json":
        return '"' + VAL[layer] + '"'
    return VAL[layer]


def expected_falsy(kind: str, fk: str) -> str:
    """What a lookup site prints when the name resolves to the falsy value *fk*
    (documented: only nil and false are falsy; nil prints as the empty string;
    `default` replaces nil, false and empty values; `empty` equals '', [] and {})."""
    if kind in PRINT_SITES:
        return {"nil": "", "false": "false", "zero": "0", "estr": "", "elist": "",
                "edict": LOOSE}[fk]
    if kind == "default":
        return "0" if fk == "zero" else "undef"
    if kind == "ifchain":
        return "none" if fk in ("nil", "false") else "other"
    if kind == "case":
        return "else"
    if kind in ("ternary", "ifout"):
        return {"nil": "none", "false": "none", "zero": "0", "estr": "", "elist": "",
                "edict": LOOSE}[fk]
    if kind == "isnil":
        return "nil" if fk == "nil" else "notnil"
    if kind == "isfalse":
        return "false" if fk == "false" else "notfalse"
    if kind == "empty":
        return "empty" if fk in ("estr", "elist", "edict") else "notempty"
    if kind == "json":
        return {"nil": "null", "false": "false", "zero": "0", "estr": '""', "elist": "[]",
                "edict": "{}"}[fk]
    raise ValueError(kind)


def classify(kind: str, text: str, name: str) -> str:  # noqa: ARG001
    for layer, v in VAL.items():
        if text in (v, '"' + v + '"'):
            return layer
    if text in DECOY:
        return DECOY[text]
    if text.isdigit():
        return "counter" if int(text) <= COUNTER_N else "counter(value %s)" % text
    if RE_NOW.match(text) or RE_TODAY.match(text) or (kind == "ifchain" and text == "other"):
        return "builtin"
    if text in ("", "none", "undef", "else"):
        return "undefined" if kind != "case" or text == "else" else "unknown"
    return "unknown-value"


def profile_values(name: str, mask: int, falsy: dict[str, Any] | None):
    """(value of every valued layer, layers given the falsy value, resolving layer) or
    None when the profile does not apply to this subset."""
    vals: dict[str, Any] = dict(VAL)
    if name == COUNT_NAME:
        vals["block"] = COUNT_VALUE  # {% translate count: 7 %}
    present = _layers(mask)
    chain = [la for la in ORDER
             if la in present or (la == "builtin" and name in ("now", "today"))]
    if not falsy:
        return vals, [], (chain[0] if chain else None)
    if not chain or chain[0] not in VAL:
        return None
    if falsy["mode"] == "inner":
        targets = [chain[0]]
    else:
        if len(chain) < 2 or chain[1] not in VAL:
            return None
        targets = chain[:2] if falsy["mode"] == "inner2" else [chain[1]]
    for t in targets:
        vals[t] = copy.deepcopy(FALSY[falsy["kind"]])
    return vals, targets, chain[0]


CONTEXTS = {
    "root": ["with-0", "with-1", "with-2", "with-3", "for-0", "for-2", "nested-0",
             "tablerow-0", "withcap-0", "withdec-0", "translate-s", "translate-p",
             "forblock-0", "withblock-0"],
    "include": ["plain", "kw", "inner", "bind", "bind-for", "alias", "alias-for",
                "translate"],
    "render": ["with", "kw", "bind", "bind-for", "with+decoy", "kw+decoy", "alias",
               "alias-for", "translate"],
    "macro": ["with", "param", "default", "with+decoy", "translate"],
    "extends": ["with-0", "with-2", "translate", "around-for", "around-with"],
    # the lookup site is in a partial rendered / macro called from inside an overriding
    # block of an inheritance chain (leaf override, mid-chain override, block.super
    # path); the base template around the block and the overriding block itself bind
    # the same name with assign/capture, for, with and a counter: none of that may show
    "chain": ["leaf-render", "leaf-render-kw", "leaf-macro", "mid-render", "mid-macro",
              "super-render", "super-macro"],
    # multi-binding constructs: the lookup site is the argument expression of a SIBLING
    # binding of the same tag (`{% with n: 'vB', s: n %}{{ s }}`): arguments are
    # evaluated in the enclosing scope, so the sibling's new binding must not be seen
    "sibling": ["with", "with-rev", "include-kw", "include-alias", "render-kw",
                "render-alias", "call-kw", "translate"],
    # the FIRST counter operation of the whole render happens inside a construct; the
    # counter is read back (by name, and by one more increment) after the construct ends:
    # flat templates, a base rendered directly, and children overriding the block
    "cfirst": ["flat-with", "flat-for", "flat-if", "flat-capture", "flat-liquid",
               "flat-include", "flat-dec", "base-direct", "child-override", "child-nested",
               "child-super", "child-include"],
    "lambda": ["root:" + f for f in ("map", "where", "reject", "find", "find_index", "has",
                                     "sort", "sort_natural", "sort_numeric", "uniq",
                                     "compact", "sum", "index")]
    + ["render:" + f for f in ("map", "where", "sort", "uniq", "sum", "index")],
}
# variants added after the first calibration; the quick tier runs them with two of the
# four api/mode combinations and only the nil/false falsy profiles
LATE_VARIANTS = {"tablerow-0", "withcap-0", "withdec-0", "alias", "alias-for",
                 "forblock-0", "withblock-0", "around-for", "around-with"}
NO_FALSY_CONTEXTS = ("lambda", "chain", "sibling", "cfirst")
# what a lambda filter prints when its parameter (bound to each item) wins inside the
# lambda body; any outer binding of the same name gives something else
LAMBDA_EXPR = {
    "map": ("{{ c10src | map: %N => %N | join: '' }}", "vB"),
    "where": ("{{ c10src | where: %N => %N == 'vB' | join: '' }}", "vB"),
    "reject": ("{{ c10src | reject: %N => %N != 'vB' | join: '' }}", "vB"),
    "find": ("{{ c10src | find: %N => %N == 'vB' }}", "vB"),
    "find_index": ("{{ c10src | find_index: %N => %N == 'vB' }}", "0"),
    "has": ("{{ c10src | has: %N => %N == 'vB' }}", "true"),
    "sort": ("{{ c10objs | sort: %N => %N.k | map: 'v' | join: '' }}", "yx"),
    "sort_natural": ("{{ c10objs | sort_natural: %N => %N.k | map: 'v' | join: '' }}", "yx"),
    "sort_numeric": ("{{ c10objs | sort_numeric: %N => %N.k | map: 'v' | join: '' }}", "yx"),
    "uniq": ("{{ c10objs | uniq: %N => %N.k | size }}", "2"),
    "compact": ("{{ c10objs | compact: %N => %N.k | size }}", "2"),
    "sum": ("{{ c10objs | sum: %N => %N.k }}", "3"),
    "index": ("{{ c10src | map: (c10it, %N) => %N | join: '' }}", "0"),
}
LAMBDA_HELPERS = {"c10src": ["vB"], "c10objs": [{"k": 2, "v": "x"}, {"k": 1, "v": "y"}]}


def variants_for(name: str, context: str) -> list[str]:
    if name == COUNT_NAME:
        return [] if context in NO_FALSY_CONTEXTS else ["translate-count"]
    return CONTEXTS[context]


def site_count(context: str, variant: str, only: str | None, falsy: Any) -> int:
    if only or context in ("lambda", "sibling") or variant.startswith("translate"):
        return 1
    if context == "chain":
        return NSITES
    if context == "cfirst":
        return NSITES + 1
    if falsy and falsy.get("reduced"):
        return len(REDUCED_SITES)
    return NSITES_EXT if falsy else NSITES


# variants in which the "block" layer is an argument of an isolated scope (render
# keyword argument / bound variable, macro parameter).  The docs say such arguments are
# "added to the rendered template's scope"; how they rank against an assign made *inside*
# that scope is not stated, so (block AND local) is excluded for them; the with-variants
# of the same contexts cover block-vs-local.
ARGUMENT_VARIANTS = {
    ("render", "kw"), ("render", "bind"), ("render", "bind-for"),
    ("render", "alias"), ("render", "alias-for"),
    ("macro", "param"), ("macro", "default"), ("chain", "leaf-render-kw"),
}


def build(name: str, mask: int, context: str, variant: str, only: str | None = None,
          falsy: dict[str, Any] | None = None) -> dict[str, str]:
    """Templates for one O2 case (the render-arg, matter, global layers live outside)."""
    N = name  # noqa: N806
    B = bool(mask & BIT["block"])  # noqa: N806
    L = bool(mask & BIT["local"])  # noqa: N806
    C = bool(mask & BIT["counter"])  # noqa: N806
    pv = profile_values(name, mask, falsy)
    assert pv is not None, "profile not applicable"
    vals = pv[0]

    def lit(layer: str) -> str:
        v = vals[layer]
        if isinstance(v, str) and v:
            return f"'{v}'"
        if isinstance(v, int) and not isinstance(v, bool) and v:
            return str(v)
        assert falsy is not None
        if falsy["lit"] and falsy["kind"] in FALSY_LITERAL:
            return FALSY_LITERAL[falsy["kind"]]
        return "c10f"  # helper environment global holding the falsy value

    vb = lit("block")
    if isinstance(vals["block"], str) and vals["block"]:
        src_setup, src = f"{{% assign c10src = {vb} | split: ',' %}}", "c10src"
    else:
        src_setup, src = "", "c10items"  # helper environment global: [falsy value]
    inc = (f"{{% increment {N} %}}" * COUNTER_N) if C else ""
    asg = f"{{% assign {N} = {lit('local')} %}}" if L else ""
    S = sites(N, only, bool(falsy), bool(falsy and falsy.get("reduced")))  # noqa: N806
    marker = f"{OPEN}out:{{{{ {N} }}}}{CLOSE}"

    def tr(plural: bool) -> str:
        """The lookup site is the message variable of a translate tag whose keyword
        argument is the block layer (both branches carry the marker; one renders)."""
        targs = []
        if B and N != COUNT_NAME:
            targs.append(f"{N}: {vb}")
        if plural or (B and N == COUNT_NAME):
            targs.append(f"count: {COUNT_VALUE}")
            return ("{% translate " + ", ".join(targs) + " %}" + marker + "{% plural %}"
                    + marker + "{% endtranslate %}")
        return "{% translate " + ", ".join(targs) + " %}" + marker + "{% endtranslate %}"

    if context == "cfirst":
        inc3 = f"{{% increment {N} %}}" * COUNTER_N
        wo, wc = (f"{{% with {N}: {vb} %}}", "{% endwith %}") if B else ("", "")
        read = wo + S + f"{OPEN}inc:{{% increment {N} %}}{CLOSE}" + wc
        where, how = variant.split("-")
        if where == "flat":
            extra: dict[str, str] = {}
            if how == "with":
                body = "{% with c10pad: 1 %}" + inc3 + "{% endwith %}"
            elif how == "for":
                body = "{% for c10q in (1..1) %}" + inc3 + "{% endfor %}"
            elif how == "if":
                body = "{% if true %}" + inc3 + "{% endif %}"
            elif how == "capture":
                body = "{% capture c10cap %}" + inc3 + "{% endcapture %}"
            elif how == "liquid":
                body = "{% liquid\n" + f"increment {N}\n" * COUNTER_N + "%}"
            elif how == "dec":
                body = ("{% with c10pad: 1 %}" + f"{{% decrement {N} %}}"
                        + f"{{% increment {N} %}}" * (COUNTER_N + 1) + "{% endwith %}")
            else:
                body, extra = "{% include 'p' %}", {"p": inc3}
            return dict({"root": asg + body + read}, **extra)
        if where == "base":
            return {"root": asg + "<{% block content %}" + inc3 + "{% endblock %}>" + read}
        out = {"base": asg + "<{% block content %}base{% endblock %}>" + read}
        if how == "override":
            out["root"] = "{% extends 'base' %}{% block content %}" + inc3 + "{% endblock %}"
        elif how == "nested":
            out["root"] = ("{% extends 'base' %}{% block content %}{% block inner %}" + inc3
                           + "{% endblock %}{% endblock %}")
        elif how == "include":
            out["root"] = "{% extends 'base' %}{% block content %}{% include 'p' %}{% endblock %}"
            out["p"] = inc3
        else:
            out["mid"] = "{% extends 'base' %}{% block content %}" + inc3 + "{% endblock %}"
            out["root"] = "{% extends 'mid' %}{% block content %}[{{ block.super }}]{% endblock %}"
        return out
    if context == "sibling":
        smark = f"{OPEN}out:{{{{ c10s }}}}{CLOSE}"
        pre = inc + asg
        nb = f"{N}: {vb}, " if B else ""
        if variant == "with":
            return {"root": pre + f"{{% with {nb}c10s: {N} %}}" + smark + "{% endwith %}"}
        if variant == "with-rev":
            nb2 = f", {N}: {vb}" if B else ""
            return {"root": pre + f"{{% with c10s: {N}{nb2} %}}" + smark + "{% endwith %}"}
        if variant == "translate":
            return {"root": pre + f"{{% translate {nb}c10s: {N} %}}" + smark + "{% endtranslate %}"}
        if variant == "call-kw":
            return {"root": f"{{% macro m {N}, c10s %}}" + smark + "{% endmacro %}" + pre
                    + f"{{% call m {nb}c10s: {N} %}}"}
        tag = variant.split("-")[0]
        if variant.endswith("-kw"):
            return {"root": pre + f"{{% {tag} 'p', {nb}c10s: {N} %}}", "p": smark}
        nb3 = f", {N}: {vb}" if B else ""
        return {"root": pre + f"{{% {tag} 'p' with {N} as c10s{nb3} %}}", "p": smark}
    if context == "lambda":
        where, fname = variant.split(":")
        expr = f"{OPEN}out:" + LAMBDA_EXPR[fname][0].replace("%N", N) + CLOSE
        if where == "root":
            return {"root": inc + asg + expr}
        return {"root": "{% render 'p' %}", "p": inc + asg + expr}
    if variant.startswith("translate"):
        T = tr(variant == "translate-p")  # noqa: N806
        if context == "root":
            return {"root": inc + asg + T}
        if context == "extends":
            return {"root": "{% extends 'base' %}{% block content %}" + inc + asg + T + "{% endblock %}",
                    "base": "<{% block content %}base{% endblock %}>"}
        if context == "include":
            return {"root": inc + asg + "{% include 'p' %}", "p": T}
        if context == "render":
            return {"root": "{% render 'p' %}", "p": inc + asg + T}
        return {"root": "{% macro m %}" + inc + asg + T + "{% endmacro %}{% call m %}"}
    if variant in ("forblock-0", "withblock-0", "around-for", "around-with"):
        # the block-scoped binding (loop variable / with) encloses a {% block %}; the
        # local is assigned inside the block (rendered directly, or overridden)
        if not B:
            o = c = ""
        elif "for" in variant:
            o, c = src_setup + f"{{% for {N} in {src} %}}", "{% endfor %}"
        else:
            o, c = f"{{% with {N}: {vb} %}}", "{% endwith %}"
        body = inc + asg + S
        if context == "root":
            return {"root": o + "{% block content %}" + body + "{% endblock %}" + c}
        return {"root": "{% extends 'base' %}{% block content %}" + body + "{% endblock %}",
                "base": o + "<{% block content %}base{% endblock %}>" + c}
    if context == "chain":
        where, how = variant.split("-", 1)
        dloc = (f"{{% assign {N} = 'xL' %}}" if mask % 2 == 0
                else f"{{% capture {N} %}}xL{{% endcapture %}}")
        base = (dloc + f"{{% increment {N} %}}" * 5
                + f"{{% assign c10d = 'xB' | split: ',' %}}{{% for {N} in c10d %}}"
                + f"{{% with {N}: 'xO' %}}<{{% block content %}}base{{% endblock %}}>"
                + "{% endwith %}{% endfor %}")
        out: dict[str, str] = {"base": base}
        if B:
            wo, wc = f"{{% with {N}: {vb} %}}", "{% endwith %}"
        else:
            wo = wc = ""
        inner = inc + asg + wo + S + wc
        if how == "render":
            call = "{% render 'p' %}"
            out["p"] = inner
        elif how == "render-kw":
            call = f"{{% render 'p', {N}: {vb} %}}" if B else "{% render 'p' %}"
            out["p"] = inc + asg + S
        else:
            call = "{% macro m %}" + inner + "{% endmacro %}{% call m %}"
        body = (f"{{% assign {N} = 'xL' %}}{{% with {N}: 'xB' %}}" + call + "{% endwith %}")
        override = "{% block content %}" + body + "{% endblock %}"
        if where == "leaf":
            out["root"] = "{% extends 'base' %}" + override
        else:
            out["mid"] = "{% extends 'base' %}" + override
            out["root"] = "{% extends 'mid' %}" + (
                "{% block content %}[{{ block.super }}]{% endblock %}" if where == "super" else "")
        return out
    if variant.startswith("withcap") and L and vals["local"] == VAL["local"]:
        asg = f"{{% capture {N} %}}{VAL['local']}{{% endcapture %}}"
    if variant.startswith("withdec") and C:
        inc = f"{{% decrement {N} %}}" + f"{{% increment {N} %}}" * (COUNTER_N + 1)
    if variant.startswith(("withcap", "withdec")):
        variant = "with" + variant[7:]

    def block(kind: str) -> tuple[str, str]:
        if not B:
            return "", ""
        if kind == "with":
            return f"{{% with {N}: {vb} %}}", "{% endwith %}"
        if kind == "for":
            return (src_setup + f"{{% for {N} in {src} %}}", "{% endfor %}")
        if kind == "tablerow":
            return (src_setup + f"{{% tablerow {N} in {src} %}}", "{% endtablerow %}")
        return (f"{{% with {N}: 'xO', c10pad: 1 %}}{{% with {N}: {vb} %}}",
                "{% endwith %}{% endwith %}")

    def ordered(kind: str, order: str, body: str) -> str:
        o, c = block(kind)
        if order == "0":
            return inc + asg + o + body + c
        if order == "1":
            return asg + inc + o + body + c
        if order == "2":
            return inc + o + asg + body + c
        return o + inc + asg + body + c

    decoy_o = decoy_c = ""
    if variant.endswith("+decoy"):
        decoy_o = (f"{{% assign {N} = 'xL' %}}" + f"{{% increment {N} %}}" * 5
                   + f"{{% with {N}: 'xB' %}}")
        decoy_c = "{% endwith %}"
        variant = variant[: -len("+decoy")]

    if context == "root":
        kind, order = variant.split("-")
        return {"root": ordered(kind, order, S)}
    if context == "extends":
        kind, order = variant.split("-")
        return {
            "root": "{% extends 'base' %}{% block content %}" + ordered(kind, order, S) + "{% endblock %}",
            "base": "<{% block content %}base{% endblock %}>",
        }
    if context == "include":
        if variant == "plain":
            return {"root": ordered("with", "0", "{% include 'p' %}"), "p": S}
        if variant == "kw":
            arg = f", {N}: {vb}" if B else ""
            return {"root": inc + asg + f"{{% include 'p'{arg} %}}", "p": S}
        if variant == "inner":
            o, c = block("with")
            return {"root": o + "{% include 'p' %}" + c, "p": inc + asg + S}
        if variant == "bind":
            arg = f" with {vb}" if B else ""
            return {"root": inc + asg + f"{{% include '{N}'{arg} %}}", N: S}
        if variant == "alias":
            arg = f" with {vb} as {N}" if B else ""
            return {"root": inc + asg + f"{{% include 'p'{arg} %}}", "p": S}
        if variant == "alias-for":
            arg = f" for {src} as {N}" if B else ""
            return {"root": src_setup + inc + asg + f"{{% include 'p'{arg} %}}", "p": S}
        arg = f" for {src}" if B else ""
        return {"root": src_setup + inc + asg + f"{{% include '{N}'{arg} %}}", N: S}
    if context == "render":
        if variant == "with":
            return {"root": decoy_o + "{% render 'p' %}" + decoy_c, "p": ordered("with", "0", S)}
        if variant == "kw":
            arg = f", {N}: {vb}" if B else ""
            return {"root": decoy_o + f"{{% render 'p'{arg} %}}" + decoy_c, "p": inc + asg + S}
        if variant == "bind":
            arg = f" with {vb}" if B else ""
            return {"root": f"{{% render '{N}'{arg} %}}", N: inc + asg + S}
        if variant == "alias":
            arg = f" with {vb} as {N}" if B else ""
            return {"root": f"{{% render 'p'{arg} %}}", "p": inc + asg + S}
        if variant == "alias-for":
            arg = f" for {src} as {N}" if B else ""
            return {"root": src_setup + f"{{% render 'p'{arg} %}}", "p": inc + asg + S}
        arg = f" for {src}" if B else ""
        return {"root": src_setup + f"{{% render '{N}'{arg} %}}", N: inc + asg + S}
    if context == "macro":
        if variant == "with":
            return {"root": "{% macro m %}" + ordered("with", "0", S) + "{% endmacro %}"
                    + decoy_o + "{% call m %}" + decoy_c}
        if variant == "param":
            if B:
                return {"root": f"{{% macro m {N} %}}" + inc + asg + S + f"{{% endmacro %}}{{% call m {vb} %}}"}
            return {"root": "{% macro m c10u %}" + inc + asg + S + "{% endmacro %}{% call m 'vB' %}"}
        if B:
            return {"root": f"{{% macro m {N}: {vb} %}}" + inc + asg + S + "{% endmacro %}{% call m %}"}
        return {"root": "{% macro m c10u: 'vB' %}" + inc + asg + S + "{% endmacro %}{% call m %}"}
    raise ValueError(context)


class O2:
    def __init__(self, ctx: Ctx):
        from liquid2 import Environment
        from liquid2 import StrictUndefined
        from liquid2.exceptions import LiquidError

        self.ctx = ctx
        self.Environment = Environment
        self.StrictUndefined = StrictUndefined
        self.LiquidError = LiquidError
        self.Loader = _make_loader_class()
        self._envs: dict[Any, Any] = {}
        self.view: list[str] = []

    def env(self, name: str, evalue: Any, falsy: dict[str, Any] | None,  # noqa: ANN201
            flavour: str = ""):
        """Environment whose globals hold the env-global layer (evalue is a 1-tuple when
        the layer is present) and, for falsy profiles, the helper globals."""
        fk = falsy["kind"] if falsy else None
        strict = bool(falsy and falsy["strict"])
        k = (name, repr(evalue), fk, strict, flavour)
        e = self._envs.get(k)
        if e is None:
            g: dict[str, Any] = {}
            if flavour == "lambda":
                g.update(copy.deepcopy(LAMBDA_HELPERS))
            if evalue:
                g[name] = evalue[0]
            if falsy:
                g["c10f"] = copy.deepcopy(FALSY[fk])
                g["c10items"] = [copy.deepcopy(FALSY[fk])]
            kw = {"undefined": self.StrictUndefined} if strict else {}
            cls = self.Environment
            if flavour == "shopify":  # the tablerow tag lives in the shopify environment
                from liquid2.shopify import Environment as cls  # noqa: N813
            e = cls(loader=self.Loader({}, {}), globals=g or None, **kw)
            self._envs[k] = e
        return e

    def execute(self, case: dict[str, Any], record: bool = True) -> list[str]:
        ctx = self.ctx
        name, mask, context, variant = case["name"], case["mask"], case["context"], case["variant"]
        api, mode, style = case["api"], case["mode"], case["args"]
        steps = case.get("steps", [True, False, True])
        only = case.get("only")
        falsy = case.get("falsy")
        fk = falsy["kind"] if falsy else None
        nsites_expected = site_count(context, variant, only, falsy)
        vals, targets, _ = profile_values(name, mask, falsy)
        tpls = build(name, mask, context, variant, only, falsy)
        flavour = ("lambda" if context == "lambda"
                   else "shopify" if variant.startswith("tablerow") else "")
        env = self.env(
            name, (vals["env-global"],) if mask & BIT["env-global"] else (), falsy, flavour
        )
        env.loader.templates = tpls
        matter = {name: vals["matter"]} if mask & BIT["matter"] else None
        env.loader.matter = {"root": matter} if matter else {}
        pm = bool(case.get("pm"))
        if pm:
            # every partial carries matter of its own binding the same name
            for tname in tpls:
                if tname != "root":
                    env.loader.matter[tname] = {name: PARTIAL_MATTER}
        tg = {name: vals["template-global"]} if mask & BIT["template-global"] else None
        keys: list[str] = []
        nsites = 0
        self.view = []

        def viol(key: str, what: str, extra: dict[str, Any]) -> None:
            keys.append(key)
            if record:
                ctx.violation(key, what, dict(
                    {"o": "O2", "name": name, "mask": mask, "context": context,
                     "variant": variant, "api": api, "mode": mode, "args": style,
                     "only": only, "falsy": falsy, "pm": pm,
                     "steps": steps, "layers_present": sorted(_layers(mask)),
                     "templates": tpls}, **extra))

        try:
            if api == "from_string":
                t = env.from_string(tpls["root"], name="root", globals=tg, overlay_data=matter)
            elif api == "get_template":
                t = env.get_template("root", globals=tg)
            else:
                t = drive(env.get_template_async("root", globals=tg))
        except Exception as e:  # noqa: BLE001
            viol(f"precedence:error:{type(e).__name__}", f"loading raised {e!r}"[:300], {})
            return keys
        suffix = "" if context == "root" else f" in {context}-{variant}"
        for si, with_r in enumerate(steps):
            present = _layers(mask) - {"render-arg"}
            if with_r:
                present.add("render-arg")
            args = {name: vals["render-arg"]} if with_r else {}
            if context == "sibling":
                present.discard("block")  # the sibling's binding is not in scope yet
            exp = expected_layer(name, present)
            if falsy and exp in targets:
                label = f"{exp}={fk}"
                shown = f"the {fk} value bound in layer {exp}"
            elif falsy:
                label = f"{exp} (next layer bound to {fk})"
                shown = f"layer {exp}"
            else:
                label = exp or "undefined"
                shown = f"layer {exp}"
            try:
                if mode == "sync":
                    out = t.render(**args) if style == "kwargs" else t.render(args)
                elif style == "kwargs":
                    out = drive(t.render_async(**args))
                else:
                    out = drive(t.render_async(args))
            except Exception as e:  # noqa: BLE001
                msg = str(e)
                actual = None
                if falsy and (type(e).__name__ == "UndefinedError" or "Undefined" in msg):
                    actual = "undefined"
                elif falsy and ("Object of type date" in msg):
                    actual = "builtin"
                if actual:
                    viol(f"precedence:{label} shadowed-by {actual}{suffix}",
                         f"{name} with layers {sorted(present)} must resolve to {shown}; the "
                         f"render raised {type(e).__name__}: {msg.splitlines()[0][:120]} "
                         f"(the name resolved to {actual})", {"step": si})
                else:
                    viol(f"precedence:error:{type(e).__name__}{suffix}",
                         f"render raised {e!r}"[:300], {"step": si})
                continue
            if record:
                ctx.ev()
            found = re.findall(f"{OPEN}(\\w+):(.*?){CLOSE}", out, re.S)
            if len(found) != nsites_expected:
                viol(f"precedence:sites-missing{suffix}",
                     f"expected {nsites_expected} lookup sites in the output, found "
                     f"{len(found)}: {out[:200]!r}", {"step": si})
                continue
            for kind, text in found:
                nsites += 1
                if context == "lambda":
                    want: str | None = LAMBDA_EXPR[variant.split(":")[1]][1]
                elif falsy and exp in targets:
                    want = expected_falsy(kind, fk)
                else:
                    want = expected_text(kind, exp, vals)
                self.view.append(
                    f"render #{si + 1} layers={sorted(present)} expected={label} "
                    f"site={kind}: printed {text!r}, expected "
                    f"{'<anything but another layer>' if want == LOOSE else want if want is not None else '<date shape>'!r}"
                )
                if want is None:
                    pat = RE_NOW if name == "now" else RE_TODAY
                    good = bool(pat.match(text))
                elif want == LOOSE:
                    good = classify(kind, text, name) in ("unknown-value", "unknown")
                else:
                    good = text == want
                if pm and not good and text == PARTIAL_MATTER and exp not in (
                        "block", "local", "render-arg"):
                    # whether a partial's own matter is visible inside it at all is not
                    # documented (HEAD ignores it); it may only not outrank blocks,
                    # locals and render() arguments
                    good = True
                    if record:
                        ctx.count("partial_matter_shown(diagnostic)")
                if good:
                    continue
                actual = classify(kind, text, name)
                if pm and text == PARTIAL_MATTER:
                    actual = "partial-matter"
                if context == "lambda" and actual not in VAL:
                    actual = "not-the-lambda-parameter"
                if si > 0 and actual == "render-arg" and not with_r:
                    actual = "render-arg of a previous render"
                klabel = label
                if kind == "inc":
                    # one more increment after the construct must continue the counter
                    klabel, actual = "counter", "a fresh counter (the first one was lost)"
                viol(
                    f"precedence:{klabel} shadowed-by {actual}{suffix}",
                    (f"the argument expression `c10s: {name}` of a tag that also binds {name} "
                     f"(sibling argument), read back as {{{{ c10s }}}}," if context == "sibling"
                     else f"{{{{ {name} }}}} at site '{kind}'")
                    + f" with layers {sorted(present)} printed "
                    f"{text!r} (layer {actual}); documented order gives {shown} "
                    f"({want if want is not None else 'a date'!r}); render #{si + 1} of the template",
                    {"step": si, "site": kind, "printed": text, "expected_layer": exp},
                )
        if record and keys and not only:
            # re-run with a single lookup site so that the stored witness is minimal
            for key in dict.fromkeys(keys):
                v = ctx.violations.get(key)
                if v is None or any(w.get("only") for w in v["witnesses"]):
                    continue
                site = v["witnesses"][0].get("site")
                if site and key in self.execute(dict(case, only=site), record=False):
                    small = dict(v["witnesses"][0], only=site,
                                 templates=build(name, mask, context, variant, site, falsy))
                    v["witnesses"].insert(0, small)
                    del v["witnesses"][3:]
        if record:
            ctx.count("site_checks", nsites)
            if pm:
                ctx.count("partial_matter_renders", len(steps))
            if variant.startswith("translate"):
                ctx.count("translate_site_checks", nsites)
            if context == "lambda":
                ctx.count("lambda_site_checks", nsites)
            if falsy:
                ctx.count("falsy_site_checks", nsites)
                ctx.count("falsy_renders", len(steps))
                ctx.nt(name, mask, context, variant, api, mode, sorted(falsy.items()))
            elif len(_layers(mask)) + (1 if name != "n" else 0) >= 2:
                ctx.nt(name, mask, context, variant, api, mode)
        return keys


def _layers(mask: int) -> set[str]:
    return {k for k, b in BIT.items() if mask & b}


def falsy_profiles(tier: str) -> list[tuple[str, str]]:
    """(falsy value, where): 'inner' = the resolving layer binds it; 'inner2' = the
    resolving layer and the next one bind it; 'second' = only the next layer binds it."""
    p = [(k, "inner") for k in FALSY]
    if tier == "quick":
        return p + [("nil", "inner2"), ("false", "inner2"), ("nil", "second")]
    return p + [(k, "inner2") for k in FALSY] + [(k, "second") for k in ("nil", "false", "zero")]


# (name, subset) pairs whose resolving layer can bind nil: every subset with at least one
# of the six valued layers
NIL_APPLICABLE = sum(
    1 for nm in NAMES for m in range(128)
    if profile_values(nm, m, {"kind": "nil", "mode": "inner"}) is not None
)


def _run_o2(spec: dict[str, Any], ctx: Ctx) -> None:
    if spec["context"] == "all":
        for c in ("root", "include", "render", "macro", "extends"):
            _run_o2(dict(spec, context=c), ctx)
        return
    name, context = spec["name"], spec["context"]
    tier = spec["tier"]
    o2 = O2(ctx)
    seen_src: set[str] = set()
    last = None
    step_orders = [[True, False, True]]
    if tier != "quick":
        step_orders.append([False, True, False])
    bases = [b for b in range(128) if not b & BIT["render-arg"]]
    bases.sort(key=lambda b: (b * 37) % 128)  # spread cheap and costly subsets over shards

    def undocumented(variant: str, m: int) -> bool:
        # whether an assign inside a rendered partial / macro body may rebind one of
        # its own arguments is not documented: not generated
        return bool(
            (context, variant.removesuffix("+decoy")) in ARGUMENT_VARIANTS
            and m & BIT["block"] and m & BIT["local"]
        )

    variants = variants_for(name, context)
    special = name == COUNT_NAME or context in NO_FALSY_CONTEXTS
    subset_set = ("layer_subsets_count" if name == COUNT_NAME
                  else f"layer_subsets_{context}" if context in NO_FALSY_CONTEXTS
                  else "layer_subsets")
    for bi, base in enumerate(bases):
        if bi % spec["n"] != spec["i"]:
            continue
        if context == "lambda" and not base & BIT["block"]:
            continue  # the lambda parameter is the block layer
        if context == "cfirst" and not base & BIT["counter"]:
            continue  # the counter is the subject
        for vi, variant in enumerate(variants):
            if undocumented(variant, base):
                ctx.count("o2_undocumented_not_generated")
                continue
            tpls = build(name, base, context, variant)
            sig = hhex(sorted(tpls.items()))
            dup = sig + str(base) in seen_src
            seen_src.add(sig + str(base))
            if dup:
                ctx.count("o2_variants_collapsed")
                continue
            if tier != "quick":
                apis = ALL_APIS
            elif context == "cfirst":
                apis = [APIS[(bi + vi) % len(APIS)]]
            elif context in NO_FALSY_CONTEXTS or variant.startswith("translate"):
                apis = [APIS[(bi + vi) % len(APIS)], APIS[(bi + vi + 2) % len(APIS)]]
            elif variant in LATE_VARIANTS:
                apis = [APIS[(bi + vi) % len(APIS)]]
            elif vi:
                # one of the four api/mode/argument-style combinations, rotating over
                # subsets and variants (the first variant of a context runs all four)
                apis = [APIS[(bi + vi) % len(APIS)]]
            else:
                apis = APIS
            for api, mode, style in apis:
                for steps in step_orders:
                    case = {"name": name, "mask": base, "context": context,
                            "variant": variant, "api": api, "mode": mode, "args": style,
                            "steps": steps}
                    o2.execute(case)
                    last = case
            # ---- the partial's own loader matter binds the name too -----------------
            if (context in ("include", "render", "extends") and not special
                    and not variant.endswith("+decoy")):
                papis = ALL_APIS if tier != "quick" else [APIS[(bi + vi) % len(APIS)]]
                for api, mode, style in papis:
                    o2.execute({"name": name, "mask": base, "context": context,
                                "variant": variant, "api": api, "mode": mode, "args": style,
                                "steps": [True, False], "pm": True})
                for m in (base, base | BIT["render-arg"]):
                    ctx.seen(f"layer_subsets_partial_matter_{context}", f"{name}:{m:07b}")
        for m in (base, base | BIT["render-arg"]):
            ctx.seen(subset_set, f"{name}:{m:07b}")
            if special:
                continue
            ctx.seen(f"layer_subsets_{context}", f"{name}:{m:07b}")
            if context == "root" and name in ("n", "now"):
                ctx.count("layer_subsets")
            # ---- falsy values in the resolving layer(s) ------------------------------
            for pi, (fk, fmode) in enumerate(falsy_profiles(tier)):
                if profile_values(name, m, {"kind": fk, "mode": fmode}) is None:
                    ctx.count("falsy_profile_not_applicable")
                    continue
                stricts = (False, True) if (fk, fmode) == ("nil", "inner") else ((m + pi) % 2 == 1,)
                ran = False
                for strict in stricts:
                    for vi, variant in enumerate(variants):
                        if undocumented(variant, m) or variant.startswith("around-"):
                            continue
                        if (fk == "elist" and m & BIT["block"]
                                and (context, variant) in (("include", "bind"), ("include", "alias"))):
                            continue  # `include … with <array>` iterates: zero renders
                        if tier == "quick" and vi:
                            # quick: nil/false in the resolving layer run every variant
                            # (nil under StrictUndefined: half); the other profiles the
                            # first variant plus a rotating third of the rest
                            if fk in ("nil", "false") and fmode == "inner":
                                if strict and fk == "nil" and (m + vi) % 3:
                                    continue
                                if fk == "false" and (m + vi) % 2:
                                    continue
                                if variant in LATE_VARIANTS and (strict or (m + vi) % 2):
                                    continue
                            elif variant in LATE_VARIANTS or (m + vi + pi) % 3:
                                continue
                        falsy = {"kind": fk, "mode": fmode, "lit": (m + vi + pi) % 2 == 0,
                                 "strict": strict,
                                 # quick: nil/false in the resolving layer use every
                                 # lookup site, the other profiles the telling ones
                                 "reduced": tier == "quick" and not (
                                     fk in ("nil", "false") and fmode == "inner")}
                        tpls = build(name, m, context, variant, None, falsy)
                        sig = hhex(sorted(tpls.items()), m, fk, fmode, strict)
                        if sig in seen_src:
                            continue
                        seen_src.add(sig)
                        apis = [APIS[(m + vi + pi) % len(APIS)]] if tier == "quick" else APIS
                        for api, mode, style in apis:
                            o2.execute({"name": name, "mask": m, "context": context,
                                        "variant": variant, "api": api, "mode": mode,
                                        "args": style, "steps": [bool(m & BIT["render-arg"])],
                                        "falsy": falsy})
                            ran = True
                if ran:
                    ctx.seen("falsy_profiles", f"{fk}:{fmode}")
                    if fmode == "inner":
                        ctx.seen(f"layer_subsets_{fk}", f"{name}:{m:07b}")
                        if fk == "nil":
                            ctx.seen(f"layer_subsets_nil_{context}", f"{name}:{m:07b}")
    if last:
        ctx.sample({"kind": "layers", "case": last,
                    "templates": build(name, last["mask"], context, last["variant"])})


# ---------------------------------------------------------------------------------------
# names bound by tags themselves: forloop, tablerowloop, args, kwargs
# ---------------------------------------------------------------------------------------

TAGNAMES: dict[str, dict[str, Any]] = {
    "forloop": {"probe": "forloop.index", "open": "{% for c10x in c10src %}",
                "close": "{% endfor %}", "want": "1", "shape": "map", "flavour": ""},
    "tablerowloop": {"probe": "tablerowloop.index", "open": "{% tablerow c10x in c10src %}",
                     "close": "{% endtablerow %}", "want": "1", "shape": "map",
                     "flavour": "shopify"},
    "args": {"probe": "args[0]", "macro": True, "want": "vB", "shape": "list", "flavour": ""},
    "kwargs": {"probe": "kwargs.index", "macro": True, "want": "vB", "shape": "map",
               "flavour": ""},
}
TAGNAME_BITS = ("block", "local", "render-arg", "matter", "template-global", "env-global")


def _run_tagnames(spec: dict[str, Any], ctx: Ctx) -> None:
    """The object a tag binds for its body (forloop, tablerowloop, a macro's args and
    kwargs) must shadow every outer binding of that name; outside the tag the usual
    order applies.  Outer layers bind the name to a map/list holding their marker."""
    from liquid2 import Environment
    from liquid2.shopify import Environment as ShopifyEnvironment

    loader_cls = _make_loader_class()

    def shape(kind: str, v: str) -> Any:
        return {"index": v} if kind == "map" else [v]

    for tname, d in TAGNAMES.items():
        marker = f"{OPEN}out:{{{{ {d['probe']} }}}}{CLOSE}"
        for mask in range(64):
            present = {b for i, b in enumerate(TAGNAME_BITS) if mask >> i & 1}
            if d.get("macro"):
                if "block" not in present or "local" in present:
                    continue  # args/kwargs are always bound; assign vs argument: undocumented
                root = ("{% macro m %}" + marker + "{% endmacro %}"
                        "{% call m 'vB', index: 'vB' %}")
            else:
                asg = f"{{% assign {tname} = c10h %}}" if "local" in present else ""
                root = (asg + d["open"] + marker + d["close"] if "block" in present
                        else asg + marker)
            g: dict[str, Any] = {"c10src": ["x"], "c10h": shape(d["shape"], "vL")}
            if "env-global" in present:
                g[tname] = shape(d["shape"], "vE")
            cls = ShopifyEnvironment if d["flavour"] == "shopify" else Environment
            matter = {tname: shape(d["shape"], "vM")} if "matter" in present else None
            env = cls(loader=loader_cls({"root": root}, {"root": matter} if matter else {}),
                      globals=g)
            tg = {tname: shape(d["shape"], "vT")} if "template-global" in present else None
            args = {tname: shape(d["shape"], "vR")} if "render-arg" in present else {}
            exp = next((la for la in ORDER if la in present), None)
            want = d["want"] if exp == "block" else (VAL[exp] if exp else "")
            for api, mode in (("get_template", "sync"), ("from_string", "async")):
                wit = {"o": "tagname", "tag_name": tname, "layers_present": sorted(present),
                       "templates": {"root": root}, "api": api, "mode": mode}
                try:
                    if api == "get_template":
                        t = env.get_template("root", globals=tg)
                    else:
                        t = env.from_string(root, globals=tg, overlay_data=matter)
                    out = t.render(**args) if mode == "sync" else drive(t.render_async(**args))
                except Exception as e:  # noqa: BLE001
                    ctx.violation(f"precedence:error:{type(e).__name__} in tagname-{tname}",
                                  f"render raised {e!r}"[:300], wit)
                    continue
                ctx.ev()
                ctx.count("tagname_site_checks")
                ctx.seen("tagnames", tname)
                ctx.nt("tagname", tname, mask, api)
                found = re.findall(f"{OPEN}out:(.*?){CLOSE}", out, re.S)
                if found != [want]:
                    actual = classify("out", found[0] if found else "", tname)
                    ctx.violation(
                        f"precedence:{exp or 'undefined'} shadowed-by {actual} in tagname-{tname}",
                        f"{{{{ {d['probe']} }}}} with layers {sorted(present)} printed {found}; "
                        f"documented order gives layer {exp} ({want!r})", wit)


def _replay_tagname(wit: dict[str, Any], ctx: Ctx) -> None:  # noqa: ARG001
    print(f"replay C10/tagname: {wit['tag_name']} layers={wit['layers_present']}: re-run the "
          f"tagnames shard (vf.run C10 --only tagnames); template: {wit['templates']['root']}")


# ---------------------------------------------------------------------------------------
# implicit names: variables that filters and tags resolve through the render context
# ---------------------------------------------------------------------------------------

# name -> (lookup site: filter applications whose output depends on the name, candidates)
IMPLICIT: dict[str, tuple[str, list[Any]]] = {
    "locale": ("{{ 1234567.891 | decimal }}/{{ 1234.5 | currency }}/{{ 7 | unit: 'length-meter' }}",
               ["de", "fr", "en_IN", "de_CH", "es", "sv", "ja", "it"]),
    "input_locale": ("{{ '1.234,5' | decimal }}/{{ '1,5' | decimal }}/{{ '1 234,5' | currency }}",
                     ["de", "fr", "de_CH", "sv", "es", "en_IN"]),
    "timezone": ("{{ '2007-04-01 15:30:00' | datetime }}",
                 ["CET", "Asia/Tokyo", "US/Pacific", "Asia/Kolkata", "Australia/Sydney",
                  "America/New_York", "Europe/Moscow"]),
    "input_timezone": ("{{ '2007-04-01 15:30:00' | datetime }}",
                       ["Asia/Tokyo", "US/Pacific", "Asia/Kolkata", "Australia/Sydney",
                        "America/New_York", "Europe/Moscow", "CET"]),
    "currency_code": ("{{ 10 | currency }}/{{ 5 | money_with_currency }}",
                      ["GBP", "EUR", "CAD", "JPY", "AUD", "CHF", "SEK"]),
    "datetime_format": ("{{ '2007-04-01 15:30:00' | datetime }}",
                        ["short", "long", "full", "yyyy", "HH:mm", "MMM", "EEEE"]),
    "currency_format": ("{{ 10 | currency }}",
                        ["#,##0.00 ¤¤", "¤¤ #0", "#0.0 ¤", "0 ¤¤¤", "¤ #,##0.000", "[¤#0]", "#0¤"]),
    "decimal_format": ("{{ 1234.5 | decimal }}",
                       ["#,##0.00", "#0.0", "0000000.0", "#E0", "#0.000", "#,##0.0000", "[#0]"]),
    "translations": ("{{ 'Hello' | t }}/{% translate %}Hi{% endtranslate %}/{{ 'x' | gettext }}",
                     ["tB", "tL", "tR", "tM", "tT", "tE"]),
}
IMPLICIT_LAYERS = ("block", "local", "render-arg", "matter", "template-global", "env-global")


class _Catalog:
    """A minimal translations object: marks every message with its own tag."""

    def __init__(self, tag: str):
        self.tag = tag

    def __repr__(self) -> str:
        return f"<catalog {self.tag}>"

    def gettext(self, message: str) -> str:
        return f"{self.tag}:{message}"

    def ngettext(self, singular: str, plural: str, n: int) -> str:
        return f"{self.tag}:{singular if n == 1 else plural}"

    def pgettext(self, context: str, message: str) -> str:  # noqa: ARG002
        return f"{self.tag}:{message}"

    def npgettext(self, context: str, singular: str, plural: str, n: int) -> str:  # noqa: ARG002
        return f"{self.tag}:{singular if n == 1 else plural}"


def _run_implicit(spec: dict[str, Any], ctx: Ctx) -> None:
    """Every subset of the layers binds an implicit name (locale, timezone, …) to a value
    with a distinguishable formatted output; the name is (re)bound at several points of
    one render — before the first use, between uses, inside with / include / for scopes,
    in a rendered partial — and each use must show the value of the binding the
    documented order selects AT THAT POINT.  Expected texts come from single-binding
    oracle renders (render(name=value) of the bare lookup site)."""
    from liquid2 import Environment

    loader_cls = _make_loader_class()
    tier = spec["tier"]
    for ni, (iname, (site, cands)) in enumerate(IMPLICIT.items()):
        if ni % spec["n"] != spec["i"]:
            continue
        plain = Environment()
        is_obj = iname == "translations"

        def val(c: Any) -> Any:
            return _Catalog(c) if is_obj else c  # noqa: B023

        try:
            default_out = plain.from_string(site).render()
            outs: dict[str, Any] = {}
            for c in cands:
                o = plain.from_string(site).render(**{iname: val(c)})
                if o != default_out and o not in outs:
                    outs[o] = c
        except Exception as e:  # noqa: BLE001
            ctx.violation(f"precedence:error:{type(e).__name__} in implicit-{iname}",
                          f"single-binding oracle render raised {e!r}"[:300],
                          {"o": "implicit", "name": iname, "site": site})
            continue
        values = list(outs.values())[: len(IMPLICIT_LAYERS)]
        layers = IMPLICIT_LAYERS[: len(values)]
        v = dict(zip(layers, values))
        text_of = {la: o for o, c in outs.items() for la in layers if v[la] == c}
        layer_of_text = {o: la for la, o in text_of.items()}
        ctx.seen("implicit_names", f"{iname}:{len(layers)}-layers")

        def lit(la: str) -> str:
            return f"c10v_{la[0]}" if is_obj else f"'{v[la]}'"  # noqa: B023

        def mark(tag: str) -> str:
            return f"{OPEN}{tag}:{site}{CLOSE}"  # noqa: B023

        for mask in range(2 ** len(layers)):
            present = {la for i, la in enumerate(layers) if mask >> i & 1}
            B, L = "block" in present, "local" in present  # noqa: N806
            glob = next((la for la in ORDER if la in present
                         and la not in ("block", "local")), None)
            loc = "local" if L else glob
            blk = "block" if B else loc
            asg = f"{{% assign {iname} = {lit('local')} %}}" if L else ""
            wo, wc = (f"{{% with {iname}: {lit('block')} %}}", "{% endwith %}") if B else ("", "")
            inc_arg = f", {iname}: {lit('block')}" if B else ""
            body = (asg + mark("u2") + wo + mark("u3") + wc + mark("u4")
                    + f"{{% include 'p'{inc_arg} %}}"
                    + (f"{{% for {iname} in c10bsrc %}}" + mark("u6") + "{% endfor %}" if B else "")
                    + "{% render 'q' %}" + mark("u8"))
            expect = {"u1": glob, "u2": loc, "u3": blk, "u4": loc, "u5": blk, "u7": glob,
                      "u8": loc}
            if B:
                expect["u6"] = "block"
            shapes = {
                "flat": {"root": mark("u1") + body},
                "extends": {"root": "{% extends 'base' %}{% block content %}" + body + "{% endblock %}",
                            "base": mark("u1") + "<{% block content %}{% endblock %}>"},
                "no-first-use": {"root": body},
            }
            g: dict[str, Any] = {"c10bsrc": [val(v["block"])] if "block" in v else []}
            if is_obj:
                for la in layers:
                    g[f"c10v_{la[0]}"] = val(v[la])
            if "env-global" in present:
                g[iname] = val(v["env-global"])
            matter = {iname: val(v["matter"])} if "matter" in present else None
            tg = {iname: val(v["template-global"])} if "template-global" in present else None
            args = {iname: val(v["render-arg"])} if "render-arg" in present else {}
            for si, (shape, tpls) in enumerate(shapes.items()):
                if tier == "quick" and shape == "no-first-use" and mask % 4:
                    continue
                tpls = dict(tpls, p=mark("u5"), q=mark("u7"))
                env = Environment(loader=loader_cls(tpls, {"root": matter} if matter else {}),
                                  globals=g)
                api, mode = (("get_template", "sync"), ("from_string", "async"),
                             ("get_template_async", "async"))[(mask + si) % 3]
                wit = {"o": "implicit", "name": iname, "layers_present": sorted(present),
                       "values": {la: repr(v[la]) for la in layers}, "shape": shape,
                       "templates": tpls, "api": api, "mode": mode}
                try:
                    if api == "get_template":
                        t = env.get_template("root", globals=tg)
                    elif api == "from_string":
                        t = env.from_string(tpls["root"], globals=tg, overlay_data=matter)
                    else:
                        t = drive(env.get_template_async("root", globals=tg))
                    out = t.render(**args) if mode == "sync" else drive(t.render_async(**args))
                except Exception as e:  # noqa: BLE001
                    ctx.violation(f"precedence:error:{type(e).__name__} in implicit-{iname}",
                                  f"render raised {e!r}"[:300], wit)
                    continue
                ctx.ev()
                ctx.nt("implicit", iname, mask, shape, api)
                found = dict(re.findall(f"{OPEN}(u\\d):(.*?){CLOSE}", out, re.S))
                for tag, exp in expect.items():
                    if tag == "u1" and shape == "no-first-use":
                        continue
                    ctx.count("implicit_site_checks")
                    want = text_of[exp] if exp else default_out
                    got = found.get(tag)
                    if got == want:
                        continue
                    actual = ("undefined(default)" if got == default_out
                              else layer_of_text.get(got, "unknown-value") if got is not None
                              else "site-missing")
                    ctx.violation(
                        f"precedence:{exp or 'undefined(default)'} shadowed-by {actual} "
                        f"in implicit-{iname}",
                        f"use {tag} of the filters reading `{iname}` with layers "
                        f"{sorted(present)} ({shape}) printed {got!r}; the binding in force at "
                        f"that point is layer {exp} ({want!r})",
                        dict(wit, use=tag, printed=got, expected=want))


# ---------------------------------------------------------------------------------------
# O2c: lookup precedence on the 2nd / 3rd get_template() through caching matter loaders
# ---------------------------------------------------------------------------------------

CACHED_LOADERS = ("cdict", "cfs", "cchoice")
# docs-style front-matter SUBCLASSES of the file-system loaders (docs/loading_templates.md
# overrides get_source only): non-caching and caching, overriding get_source only, both,
# or get_source_async only (then matter exists for the async API only), and a plain
# ChoiceLoader delegating to one of them.  Every load of a non-caching kind is fresh.
SUBCLASS_LOADERS = ("fs_sync", "fs_both", "fs_async", "cfs_sync", "choice_fs_sync",
                    "pkg_sync")
ALL_LOADER_KINDS = CACHED_LOADERS + SUBCLASS_LOADERS
CACHED_APIS = ("get_template", "get_template_async")
CACHED_PATTERNS = ("same", "different", "none")  # globals= passed by the later loads
CACHED_CONTEXTS = [("root", "with-0"), ("include", "plain"), ("render", "with"),
                   ("extends", "with-0")]
POPEN, PCLOSE = "‹", "›"
PARTIAL_PROBE = f"{POPEN}pm:{{{{ c10other }}}}{PCLOSE}"


class O2Cached:
    """Front-matter style loaders built on the caching loaders, as in
    docs/loading_templates.md: get_source returns TemplateSource(..., matter=...)."""

    def __init__(self, ctx: Ctx):
        import asyncio
        import tempfile

        from liquid2 import CachingChoiceLoader
        from liquid2 import CachingDictLoader
        from liquid2 import CachingFileSystemLoader
        from liquid2 import Environment
        from liquid2.loader import TemplateSource

        self.ctx = ctx
        self.Environment = Environment
        self.tmp = tempfile.mkdtemp(prefix="vf-c10-")
        self.loop = asyncio.new_event_loop()
        self._envs: dict[Any, Any] = {}
        self.view: list[str] = []
        inner_cls = _make_loader_class()

        class MatterCachingDictLoader(CachingDictLoader):
            def __init__(self, templates: dict[str, str], matter: dict[str, Any],
                         auto_reload: bool):
                super().__init__(templates, auto_reload=auto_reload)
                self.matter = matter

            def get_source(self, env, template_name, *, context=None, **kwargs):  # noqa: ANN001, ANN003, ANN202
                source, name, uptodate, _ = super().get_source(
                    env, template_name, context=context, **kwargs
                )
                return TemplateSource(source, name, uptodate, self.matter.get(template_name))

        class MatterCachingFileSystemLoader(CachingFileSystemLoader):
            def __init__(self, search_path: str, matter: dict[str, Any], auto_reload: bool):
                super().__init__(search_path, auto_reload=auto_reload)
                self.matter = matter

            def get_source(self, env, template_name, *, context=None, **kwargs):  # noqa: ANN001, ANN003, ANN202
                source, name, uptodate, _ = super().get_source(
                    env, template_name, context=context, **kwargs
                )
                return TemplateSource(source, name, uptodate, self.matter.get(template_name))

            async def get_source_async(self, env, template_name, *, context=None, **kwargs):  # noqa: ANN001, ANN003, ANN202
                source, name, uptodate, _ = await super().get_source_async(
                    env, template_name, context=context, **kwargs
                )
                return TemplateSource(source, name, uptodate, self.matter.get(template_name))

        from liquid2 import ChoiceLoader
        from liquid2 import FileSystemLoader

        def _sync_src(self, env, template_name, *, context=None, **kwargs):  # noqa: ANN001, ANN003, ANN202
            source, name, uptodate, _ = super(type(self), self).get_source(
                env, template_name, context=context, **kwargs
            )
            return TemplateSource(source, name, uptodate, self.matter.get(template_name))

        async def _async_src(self, env, template_name, *, context=None, **kwargs):  # noqa: ANN001, ANN003, ANN202
            source, name, uptodate, _ = await super(type(self), self).get_source_async(
                env, template_name, context=context, **kwargs
            )
            return TemplateSource(source, name, uptodate, self.matter.get(template_name))

        def subclass(base: type, name: str, sync: bool, asyn: bool) -> type:
            ns: dict[str, Any] = {}
            if sync:
                ns["get_source"] = _sync_src
            if asyn:
                ns["get_source_async"] = _async_src
            return type(name, (base,), ns)

        from liquid2 import PackageLoader

        self.pkg = f"c10pkg_{os.getpid()}_{id(self) % 100000}"
        os.makedirs(os.path.join(self.tmp, self.pkg, "templates"))
        with open(os.path.join(self.tmp, self.pkg, "__init__.py"), "w") as f:
            f.write("")
        sys.path.insert(0, self.tmp)
        pkg_style = subclass(PackageLoader, "PackageFrontMatterLoaderSyncOnly", True, False)

        fs_styles = {
            "fs_sync": subclass(FileSystemLoader, "FrontMatterLoaderSyncOnly", True, False),
            "fs_both": subclass(FileSystemLoader, "FrontMatterLoaderBoth", True, True),
            "fs_async": subclass(FileSystemLoader, "FrontMatterLoaderAsyncOnly", False, True),
            "cfs_sync": subclass(CachingFileSystemLoader, "CachingFrontMatterLoaderSyncOnly",
                                 True, False),
        }

        def make(kind: str, templates: dict[str, str], matter: dict[str, Any],  # noqa: ANN202
                 auto_reload: bool = True):
            if kind == "cdict":
                return MatterCachingDictLoader(templates, matter, auto_reload)
            if kind == "cchoice":
                return CachingChoiceLoader(
                    [inner_cls({}, {}), inner_cls(templates, matter)], auto_reload=auto_reload)
            if kind == "pkg_sync":
                tdir = os.path.join(self.tmp, self.pkg, "templates")
                for fn in os.listdir(tdir):
                    os.unlink(os.path.join(tdir, fn))
                for tname, src in templates.items():
                    with open(os.path.join(tdir, tname + ".liquid"), "w", encoding="utf-8") as f:
                        f.write(src)
                ld = pkg_style(self.pkg)
                ld.matter = matter
                return ld
            for fn in os.listdir(self.tmp):
                if os.path.isfile(os.path.join(self.tmp, fn)):
                    os.unlink(os.path.join(self.tmp, fn))
            for tname, src in templates.items():
                with open(os.path.join(self.tmp, tname), "w", encoding="utf-8") as f:
                    f.write(src)
            if kind == "cfs":
                return MatterCachingFileSystemLoader(self.tmp, matter, auto_reload)
            style = kind.removeprefix("choice_")
            if style == "cfs_sync":
                ld = fs_styles[style](self.tmp, auto_reload=auto_reload)
            else:
                ld = fs_styles[style](self.tmp)
            ld.matter = matter
            return ChoiceLoader([ld]) if kind.startswith("choice_") else ld

        self.make_loader = make

    def close(self) -> None:
        import shutil

        try:
            self.loop.run_until_complete(self.loop.shutdown_default_executor())
            self.loop.close()
        finally:
            if self.tmp in sys.path:
                sys.path.remove(self.tmp)
            sys.modules.pop(self.pkg, None)
            shutil.rmtree(self.tmp, ignore_errors=True)

    def run(self, kind: str, coro):  # noqa: ANN001, ANN201
        # the file-system loaders' async path needs a running loop (run_in_executor)
        if kind in ("cdict", "cchoice"):
            return drive(coro)
        return self.loop.run_until_complete(coro)

    def env(self, name: str, with_e: bool):  # noqa: ANN201
        k = (name, with_e)
        e = self._envs.get(k)
        if e is None:
            e = self.Environment(globals={name: "vE"} if with_e else None)
            self._envs[k] = e
        return e

    def execute(self, case: dict[str, Any], record: bool = True) -> list[str]:
        ctx = self.ctx
        name, base = case["name"], case["mask"] & ~BIT["render-arg"]
        context, variant = case["context"], case["variant"]
        kind, api, pattern = case["loader"], case["api"], case["pattern"]
        only = case.get("only")
        is_async = api == "get_template_async"
        tpls = build(name, base, context, variant, only)
        partial = {"include": "p", "render": "p", "extends": "base"}.get(context)
        matter: dict[str, Any] = {}
        if base & BIT["matter"]:
            matter["root"] = {name: "vM"}
        if partial:
            tpls[partial] += PARTIAL_PROBE
            matter[partial] = {"c10other": "pm"}
        tg_first = {name: "vT"} if base & BIT["template-global"] else None
        # a second caller's value for the template-global layer; "xO" is one of the values
        # the if-chain / case probes can show and is not used as a decoy in these contexts
        tg_other = {name: "xO"}
        other_caller = {"c10g": 1}
        before = copy.deepcopy((matter, tg_first, tg_other, other_caller))
        env = self.env(name, bool(base & BIT["env-global"]))
        auto_reload = bool(case.get("auto_reload", True))
        env.loader = self.make_loader(kind, tpls, matter, auto_reload)
        keys: list[str] = []
        nsites = 0
        self.view = []
        where = "" if context == "root" else f" in {context}-{variant}"
        suffix = where + " on cached reload"
        # a wrong layer already on the first load is the loader path's doing
        first_suffix = where + f" on first load ({kind}, {api})"

        def viol(key: str, what: str, extra: dict[str, Any]) -> None:
            keys.append(key)
            if record:
                ctx.violation(key, what, dict(
                    {"o": "O2c", "name": name, "mask": base, "context": context,
                     "variant": variant, "loader": kind, "api": api, "pattern": pattern,
                     "auto_reload": auto_reload, "only": only, "layers_present_at_first_load": sorted(_layers(base)),
                     "templates": tpls, "matter": matter}, **extra))

        def load(tname: str, g: dict[str, Any] | None):  # noqa: ANN202
            kw = {} if g is None else {"globals": g}
            if is_async:
                return self.run(kind, env.get_template_async(tname, **kw))
            return env.get_template(tname, **kw)

        def render(t: Any, args: dict[str, Any], style: str) -> str:
            if is_async:
                return self.run(kind, t.render_async(**args) if style == "kwargs" else t.render_async(args))
            return t.render(**args) if style == "kwargs" else t.render(args)

        def probe_partial(when: str, g: dict[str, Any] | None) -> None:
            # the partial carries matter of its own; loaded directly by another caller
            # it must see that matter, before and after other templates pulled it in
            try:
                out = render(load(partial, g), {}, "kwargs")
            except Exception as e:  # noqa: BLE001
                viol(f"precedence:error:{type(e).__name__}{suffix}",
                     f"loading/rendering the partial directly ({when}) raised {e!r}"[:300], {})
                return
            got = re.findall(f"{POPEN}pm:(.*?){PCLOSE}", out, re.S)
            self.view.append(f"partial {partial!r} loaded directly {when}: c10other printed {got}")
            if record:
                ctx.count("cached_partial_probes")
            if got != ["pm"]:
                viol(f"precedence:matter shadowed-by undefined in partial-loaded-directly{suffix}",
                     f"{partial!r} has matter {{'c10other': 'pm'}}; loaded directly {when} "
                     f"{{{{ c10other }}}} printed {got}", {"when": when})

        if partial:
            probe_partial("before any other template used it", other_caller)
        prev = None
        for k in (1, 2, 3):
            if k == 1 or pattern == "same":
                g = tg_first
            elif pattern == "different":
                g = tg_other
            else:
                g = None
            try:
                t = load("root", g)
            except Exception as e:  # noqa: BLE001
                viol(f"precedence:error:{type(e).__name__}{suffix}",
                     f"get_template #{k} raised {e!r}"[:300], {"load": k})
                break
            if record and k > 1:
                ctx.count("cached_reloads")
                if t is prev:
                    ctx.count("cache_hits")
            prev = t
            # each render follows its own get_template() call, so the template-global
            # layer is what that (the latest) caller passed: a cache hit must not keep an
            # earlier caller's template globals (overlapping callers are C14's question)
            t_latest = {"template-global": g[name]} if g else {}
            for with_r in (True, False):
                args = {name: "vR"} if with_r else {}
                others = (_layers(base) - {"template-global", "render-arg"}) | (
                    {"render-arg"} if with_r else set())
                try:
                    out = render(t, args, "kwargs" if (k + with_r) % 2 else "dict")
                except Exception as e:  # noqa: BLE001
                    viol(f"precedence:error:{type(e).__name__}{suffix}",
                         f"render after get_template #{k} raised {e!r}"[:300], {"load": k})
                    continue
                if record:
                    ctx.ev()
                found = re.findall(f"{OPEN}(\\w+):(.*?){CLOSE}", out, re.S)
                if len(found) != (1 if only else NSITES):
                    viol(f"precedence:sites-missing{suffix}",
                         f"expected {NSITES} lookup sites, found {len(found)}: {out[:200]!r}",
                         {"load": k})
                    continue
                accept = []
                for tl in (t_latest,):
                    exp = expected_layer(name, others | set(tl))
                    accept.append((exp, tl.get("template-global", "vT")))
                for skind, text in found:
                    nsites += 1
                    good = False
                    wants = []
                    for ai, (exp, tval) in enumerate(accept):
                        want = expected_text(skind, exp)
                        if want is not None and exp == "template-global":
                            want = want.replace("vT", tval)
                        wants.append(want)
                        if want is None:
                            ok = bool((RE_NOW if name == "now" else RE_TODAY).match(text))
                        else:
                            ok = text == want
                        if ok:
                            good = True
                            break
                    self.view.append(
                        f"get_template #{k} (globals={g}) render(R={with_r}) site={skind}: "
                        f"printed {text!r}, accepted {wants}")
                    if good:
                        continue
                    exp = accept[0][0]
                    actual = "template-global" if text == "xO" else classify(skind, text, name)
                    if actual == "template-global" and exp == "template-global":
                        actual = "template-global of an earlier caller"
                    elif actual == "template-global" and k > 1 and pattern != "same":
                        actual = "template-global of an earlier caller"
                    viol(
                        f"precedence:{exp or 'undefined'} shadowed-by {actual}"
                        f"{first_suffix if k == 1 else suffix}",
                        f"{{{{ {name} }}}} at site '{skind}' after get_template #{k} of 'root' "
                        f"through the {kind} matter loader ({api}, auto_reload={auto_reload}, "
                        f"later loads pass {pattern} globals) with layers {sorted(others | set(t_latest))} printed "
                        f"{text!r} (layer {actual}); documented order gives layer {exp} "
                        f"({wants[0] if wants[0] is not None else 'a date'!r})",
                        {"load": k, "with_render_arg": with_r, "site": skind, "printed": text,
                         "expected_layer": exp},
                    )
        if partial:
            probe_partial("after other templates included/rendered/extended it", None)
        if (matter, tg_first, tg_other, other_caller) != before:
            viol("mutation:caching-loader:deep-diff:caller-globals-or-matter",
                 f"caller data changed: {before!r} -> {(matter, tg_first, tg_other, other_caller)!r}"[:300], {})
        if record and keys and not only:
            for key in dict.fromkeys(keys):
                v = ctx.violations.get(key)
                if v is None or any(w.get("only") for w in v["witnesses"]):
                    continue
                site = v["witnesses"][0].get("site")
                if site and key in self.execute(dict(case, only=site), record=False):
                    small = dict(v["witnesses"][0], only=site,
                                 templates=dict(build(name, base, context, variant, site)))
                    v["witnesses"].insert(0, small)
                    del v["witnesses"][3:]
        if record:
            ctx.count("site_checks", nsites)
            ctx.count("cached_site_checks", nsites)
            ctx.nt("cached", name, base, context, variant, kind, api, pattern)
        return keys


def _cached_cases(name: str, base: int, tier: str) -> Iterator[dict[str, Any]]:
    for li, kind in enumerate(ALL_LOADER_KINDS):
        for ai, api in enumerate(CACHED_APIS):
            if kind == "fs_async" and api == "get_template":
                continue  # that subclass supplies matter to the async API only
            for pi, pattern in enumerate(CACHED_PATTERNS):
                if (tier == "quick" and kind in SUBCLASS_LOADERS
                        and (base + li + ai) % len(CACHED_PATTERNS) != pi):
                    continue  # quick: one globals pattern per case for the subclass kinds
                if tier == "quick":
                    cvs = [CACHED_CONTEXTS[(base + li + ai * 2 + pi) % len(CACHED_CONTEXTS)]]
                else:
                    cvs = CACHED_CONTEXTS
                for context, variant in cvs:
                    ars = [(base + li + ai + pi) % 2 == 0] if tier == "quick" else [True, False]
                    for ar in ars:
                        yield {"name": name, "mask": base, "context": context,
                               "variant": variant, "loader": kind, "api": api,
                               "pattern": pattern, "auto_reload": ar}


def _run_o2c(spec: dict[str, Any], ctx: Ctx) -> None:
    name = spec["name"]
    o = O2Cached(ctx)
    last = None
    try:
        bases = [b for b in range(128) if not b & BIT["render-arg"]]
        for bi, base in enumerate(bases):
            if bi % spec["n"] != spec["i"]:
                continue
            for case in _cached_cases(name, base, spec["tier"]):
                o.execute(case)
                ctx.seen("cached_loaders", case["loader"] + ":" + case["api"])
                ctx.seen("cached_loader_modes",
                         f"{case['loader']}:auto_reload={case['auto_reload']}:{case['pattern']}")
                ctx.seen("cached_contexts", case["context"] + ":" + case["pattern"])
                last = case
            for m in (base, base | BIT["render-arg"]):
                ctx.seen("layer_subsets_cached", f"{name}:{m:07b}")
    finally:
        o.close()
    if last:
        ctx.sample({"kind": "cached", "case": last})


# ---------------------------------------------------------------------------------------
# framework interface
# ---------------------------------------------------------------------------------------


def shards(tier: str, seed: int) -> list[dict[str, Any]]:  # noqa: ARG001
    specs: list[dict[str, Any]] = [{"kind": "selftest", "i": 0, "n": 1},
                                   {"kind": "vivify", "i": 0, "n": 1},
                                   {"kind": "tagnames", "i": 0, "n": 1},
                                   {"kind": "implicit", "i": 0, "n": 3},
                                   {"kind": "implicit", "i": 1, "n": 3},
                                   {"kind": "implicit", "i": 2, "n": 3}]
    nf = 9 if tier == "quick" else 24
    for i in range(nf):
        specs.append({"kind": "filters", "i": i, "n": nf})
    # the same filter workload over exact builtin list / dict layers (deep diff only)
    nfp = 4 if tier == "quick" else 12
    for i in range(nfp):
        specs.append({"kind": "filters", "i": i, "n": nfp, "plain": True})
    nt = 3 if tier == "quick" else 6
    for i in range(nt):
        specs.append({"kind": "tags", "i": i, "n": nt})
    nc = 3 if tier == "quick" else 6
    for i in range(nc):
        specs.append({"kind": "chains", "i": i, "n": nc})
    specs.append({"kind": "chains", "i": nc, "n": nc + 1, "plain": True})
    for name in NAMES:
        for context, n in (("root", 3), ("include", 3), ("render", 3), ("macro", 3), ("extends", 2)):
            for i in range(n):
                specs.append({"kind": "layers", "name": name, "context": context, "i": i, "n": n})
        specs.append({"kind": "layers", "name": name, "context": "lambda", "i": 0, "n": 1})
        specs.append({"kind": "layers", "name": name, "context": "chain", "i": 0, "n": 1})
        specs.append({"kind": "layers", "name": name, "context": "sibling", "i": 0, "n": 1})
        specs.append({"kind": "layers", "name": name, "context": "cfirst", "i": 0, "n": 1})
    specs.append({"kind": "layers", "name": COUNT_NAME, "context": "all", "i": 0, "n": 1})
    ncached = 2 if tier == "quick" else 6
    for name in NAMES:
        for i in range(ncached):
            specs.append({"kind": "cached", "name": name, "i": i, "n": ncached})
    return specs


def floors(tier: str) -> dict[str, int]:
    k = 1 if tier == "quick" else 20
    return {
        "deep_comparisons": 2000 * k,
        "deep_comparisons_after_failure": 300 * k,
        "failed_mid_render": 200 * k,
        "renders_ok": 1000 * k,
        "cases_with_container_flow": 2000 * k,
        "set:filters_applied": 70,
        "layer_subsets": 256,
        "set:layer_subsets": 384,
        "set:layer_subsets_include": 384,
        "set:layer_subsets_render": 384,
        "site_checks": 100_000,
        "monitor_selftest_detections": 46,
        # every (name, subset) whose resolving layer can hold a value, with that layer
        # bound to nil (and to false, 0, '', [], {}), in the root and partial contexts
        "set:layer_subsets_nil": NIL_APPLICABLE,
        "set:layer_subsets_nil_root": NIL_APPLICABLE,
        "set:layer_subsets_nil_render": NIL_APPLICABLE,
        "set:layer_subsets_false": NIL_APPLICABLE,
        "set:layer_subsets_edict": NIL_APPLICABLE,
        "set:falsy_profiles": len(falsy_profiles(tier)),
        "falsy_site_checks": 400_000,
        # every subset again on the 2nd and 3rd get_template() through caching matter loaders
        "set:layer_subsets_cached": len(NAMES) * 128,
        "set:cached_loaders": len(ALL_LOADER_KINDS) * len(CACHED_APIS) - 1,
        "set:cached_loader_modes": len(CACHED_LOADERS) * 2 * len(CACHED_PATTERNS),
        "set:cached_contexts": len(CACHED_CONTEXTS) * len(CACHED_PATTERNS),
        "cached_reloads": 6000,
        "cache_hits": 6000,
        "cached_site_checks": 200_000,
        "cached_partial_probes": 3000,
        # lookup sites inside every name-binding tag
        "translate_site_checks": 10_000,
        "lambda_site_checks": 5000,
        "set:layer_subsets_count": 128,
        "set:layer_subsets_lambda": 192,
        "set:layer_subsets_chain": len(NAMES) * 128,
        "set:layer_subsets_sibling": len(NAMES) * 128,
        "set:layer_subsets_cfirst": len(NAMES) * 64,
        "implicit_site_checks": 5000,
        "set:implicit_names": 9,
        "tagname_site_checks": 300,
        "set:tagnames": len(TAGNAMES),
        # the partial's own loader matter as a layer
        "partial_matter_renders": 3000,
        "set:layer_subsets_partial_matter_include": 384,
        "set:layer_subsets_partial_matter_render": 384,
        "set:layer_subsets_partial_matter_extends": 384,
    }


def exhaustive(tier: str, merged: dict[str, Any]) -> bool:  # noqa: ARG001
    sets = merged["sets"]
    return (
        len(sets.get("layer_subsets", ())) == len(NAMES) * 128
        and all(len(sets.get(f"layer_subsets_{fk}", ())) == NIL_APPLICABLE for fk in FALSY)
        and len(sets.get("layer_subsets_cached", ())) == len(NAMES) * 128
        and len(sets.get("layer_subsets_count", ())) == 128
        and len(sets.get("layer_subsets_partial_matter_render", ())) == len(NAMES) * 128
        and not merged["failed"]
    )


def run_shard(spec: dict[str, Any], ctx: Ctx) -> None:
    if spec["kind"] == "selftest":
        _selftest(ctx)
    elif spec["kind"] == "layers":
        _run_o2(spec, ctx)
    elif spec["kind"] == "cached":
        _run_o2c(spec, ctx)
    elif spec["kind"] == "tagnames":
        _run_tagnames(spec, ctx)
    elif spec["kind"] == "implicit":
        _run_implicit(spec, ctx)
    else:
        _run_o1(spec, ctx)


def replay(wit: dict[str, Any], ctx: Ctx) -> None:
    if wit.get("o") == "implicit":
        names = list(IMPLICIT)
        _run_implicit({"tier": "thorough", "i": names.index(wit["name"]), "n": len(names)}, ctx)
        print(f"replay C10/implicit: re-ran every subset for `{wit['name']}`; this witness: "
              f"layers={wit['layers_present']} shape={wit['shape']} use={wit.get('use')}")
        for n, src in wit["templates"].items():
            print(f"  template {n!r}: {src}")
        for v in ctx.violations.values():
            print(f"  {v['key']}: {v['what']}")
        return
    if wit.get("o") == "tagname":
        _run_tagnames({"tier": "quick"}, ctx)
        _replay_tagname(wit, ctx)
        return
    if wit.get("o") == "O2c":
        o = O2Cached(ctx)
        try:
            keys = o.execute(wit)
        finally:
            o.close()
        print(f"replay C10/O2c: name={wit['name']} layers={sorted(_layers(wit['mask']))} "
              f"context={wit['context']}-{wit['variant']} loader={wit['loader']} "
              f"api={wit['api']} later-globals={wit['pattern']}")
        for line in o.view:
            print("  " + line)
        for v in ctx.violations.values():
            print(f"  {v['key']}: {v['what']}")
        print(f"  keys={keys}")
        return
    if wit.get("o") == "O2":
        o2 = O2(ctx)
        keys = o2.execute(wit)
        print(f"replay C10/O2: name={wit['name']} layers={sorted(_layers(wit['mask']))} "
              f"context={wit['context']}-{wit['variant']} api={wit['api']} mode={wit['mode']}")
        print(f"  falsy profile: {wit.get('falsy')}")
        for n, s in build(wit["name"], wit["mask"], wit["context"], wit["variant"],
                          wit.get("only"), wit.get("falsy")).items():
            print(f"  template {n!r}: {s}")
        for line in o2.view:
            print("  " + line)
        for v in ctx.violations.values():
            print(f"  {v['key']}: {v['what']}")
        print(f"  keys={keys}")
        return
    o1 = O1(ctx, wit["dataseed"], bool(wit.get("permit")), bool(wit.get("plain")))
    case = {k: wit[k] for k in ("templates", "api", "mode", "args", "envkind", "subject")}
    keys = o1.execute(case)
    print(f"replay C10/O1: subject={wit['subject']} api={wit['api']} mode={wit['mode']} "
          f"permit={wit.get('permit')} dataseed={wit['dataseed']} "
          f"render status={o1.last_status}")
    for n, s in wit["templates"].items():
        print(f"  template {n!r}: {s}")
    for v in ctx.violations.values():
        print(f"  {v['key']}: {v['what']}")
    print(f"  keys={keys}")
