"""C08 — template inheritance resolves every block to its most-derived override.

Monitor: reference-model comparison.  Abstract chain descriptions (vf/c08_inherit.py) are
emitted to Liquid sources served by a DictLoader / CachingDictLoader; the entry template is
rendered sync and async through the real engine and every outcome (text or error class,
under a logical step budget) is compared with the model's fold over the chain.
"""

from __future__ import annotations

import copy
import itertools
import random
from typing import Any
from typing import Iterator

from .. import c08_inherit as M
from ..core import Ctx
from ..core import Stop
from ..instr.sched import drive
from ..instr.steps import StepBudgetExceeded
from ..instr.steps import StepCounter

ID = "C08"
LEVEL = "exploration"
RULE = (
    "a case = an abstract program {template: items} + entry template + data, emitted to "
    "Liquid and rendered 4 ways (sync/async x DictLoader/CachingDictLoader), each compared "
    "with the reference block resolution.  Families: exh = ALL chains of depth 1..3 over "
    "block names a,b where each template picks one of 34 configurations (layout flat / a "
    "nests b / b nests a; each block omitted, plain, using block.super, or required), "
    "children always carry stray text outside blocks; ctl = root blocks wrapped in "
    "if/for, block.super used twice, bodies reading data / root-assigned / loop variables; "
    "struct = one structural defect (duplicate name, second extends, endblock mismatch, "
    "text or a block before extends, the extends tag inside capture / if / with) injected "
    "at every chain position; cyc = ALL extends graphs on "
    "<= 4 templates from every entry; entry = chains entered through include/render from "
    "plain templates, for loops, root text, root blocks and override blocks of another "
    "chain, and plain pages that after entering a chain go on to render its base, a bare "
    "block of the same name or another chain (also through {% for t in names %}{% include "
    "t %}); hist = on ONE Environment (CachingDictLoader, and DictLoader) all ordered pairs "
    "and seeded triples/quadruples of renders of different entries of a universe h0 <- h1 "
    "with 6 leaf configurations under each, sync/async mixed, each step compared with the "
    "model's answer for that entry alone, plus str(template) of every cached template "
    "against a fresh parse; every 8th case of every family (every 2nd of cyc, a quarter "
    "of the hist pairs) is ALSO run with its templates renamed to path-like names that "
    "share base names across directories (x, d1/x, d2/x ...; x/y alternating; d/x, d/d/x), "
    "cyclic graphs included; two more render modes with Environment(auto_escape=True) and "
    "blank = a block x (default body empty / whitespace / comment / assign / mixed / text; "
    "required or not) as the SOLE non-blank content of an enclosing block, if, unless, for, "
    "case/when, with, block>if, if>for (also whitespace-padded), placed in the root's top "
    "level, in the root's outer block (also reached through block.super), in a mid or "
    "leaf override body, with the override of x being absent / text / whitespace-only / "
    "empty / super+text / in the mid template, rendered additionally with "
    "suppress_blank_control_flow_blocks=False (sync/async x DictLoader/CachingDictLoader; "
    "also every 32nd case of the other families); "
    "cont = a block (and hidden duplicates / a hidden second extends) inside capture "
    "(printed 0/1/2 times, nested, inside if/for/with), macro body (called 0/1/2 times), "
    "with, {% liquid %} line form, comment, {# #} comment and raw, placed in root / mid / "
    "leaf, overridden with text or block.super (model: blocks anywhere in executable markup "
    "participate, inside comment/raw they are text); rel = metamorphic: seeded roots whose "
    "blocks use cycle, increment/decrement, macros defined/called inside and outside "
    "blocks, offset: continue, capture, assign, loop variables, inside for loops / if / "
    "capture, nested - rendered directly (4 modes) must equal the render through 1..3 "
    "descendants that override nothing (p1-p3) and through descendants overriding with "
    "{{ block.super }} only (s1-s4), sync/async, both loaders; "
    "every 8th case (4th of struct and blank) is ALSO run in another SPELLING: block names "
    "bare / single- / double-quoted, half of them renamed to names with spaces, unicode or "
    "keyword-like words ('required', 'if', 'true', 'for', 'nil'), endblock names spelled "
    "independently, `required` after each spelling, whitespace-control markers on the "
    "block tags, {% liquid %} line form, extends targets quoted both ways; "
    "reuse = ONE leaf Template object rendered 3-5 times (sync/async alternating) while "
    "the loader's universe changes between renders (mid body replaced, mid re-parented, "
    "mid becomes a root, root body replaced, root gains a parent, restored) and with a "
    "context-aware loader choosing the root by a `theme` render variable - each render "
    "must equal the model's answer for the universe at that moment; the spelling variants "
    "also write extends names as bare words and bind every template / block name in the "
    "render data to other template names, a missing name and non-strings; "
    "data d = <D&\"'> are added for ALL ctl cases, every 4th case that uses block.super "
    "and every 16th case (block bodies always contain literal < and >); samp = seeded random chains of depth 2..8 (mostly <= 4) over 3 names with "
    "random nesting, if/for wrappers, block.super once/twice, variable reads.  "
    "distinct = hash(sources, entry, data); non-trivial = the rendered chain has depth >= 2 "
    "and >= 1 block occurrence resolved to a definition from another template (or the "
    "expected outcome is an inheritance error)."
)
ASSUMPTIONS = [
    "the reference model (vf/c08_inherit.py) is the property: most-derived definition "
    "wins for every occurrence of a block name, block.super = next less-derived "
    "definition, non-root text outside blocks never rendered, include/render start an "
    "independent resolution",
    "a `required` most-derived definition whose name is never reached by what the root "
    "renders is a don't-care (either output or RequiredBlockError accepted; counted as "
    "dont_care_required)",
    "structural errors must be TemplateInheritanceError (any subclass), at get_template "
    "or at render; an unoverridden required block must be RequiredBlockError",
    "step budget per get_template+render = 250000 function activations (typical case "
    "uses < 4000, worst observed well-formed 45000, ill-formed 105000); exceeding it or a RecursionError is a violation (no-termination)",
    "variables read in block bodies are limited to render data, names assigned at the "
    "root's top level, root-level loop variables and include/render keyword arguments; "
    "render data is never empty (keeps clear of the unrelated `global_data or {}` defect)",
    "chains are driven with default Undefined (block.super without a parent renders '')",
    "mutually nested blocks across templates (a nests b in one template, b nests a in "
    "another, reached again through block.super) have no finite meaning: such chains "
    "stay in the exhaustive family (1800 of 40494, counted as "
    "exh_invalid_recursive_nesting) but only 'stops with a LiquidError/RecursionError "
    "within the step budget, no output' is demanded of them",
    "a template rendered directly (depth 1) is treated as a chain of one template: its "
    "own required blocks and duplicate block names must be rejected too",
    "NOT judged: an `include`d template that has blocks but no `extends`, rendered while "
    "a chain of depth >= 2 is being resolved.  The statement speaks of templates linked "
    "by extends; whether such a block is resolved by the including chain is not pinned.  "
    "Both readings (chain of one template / its block names defined by the including "
    "chain are resolved by that chain) are modelled, all four modes must agree with one "
    "of them, and cases where the readings differ are counted as "
    "dont_care_standalone_include_blocks (…_participated = the engine took the second "
    "reading).  Chains (templates WITH extends) entered through include/render are "
    "judged strictly",
    "once a chain entered from a plain page has finished, nothing of it may survive: a "
    "later include of its base, a bare block of the same name in the page, or another "
    "chain resolve on their own (the participate reading above only applies WHILE a chain "
    "of depth >= 2 is being resolved)",
    "under auto_escape literal template text is output verbatim and a variable's value "
    "is HTML-escaped exactly once, however many block.super levels it passes through",
    "templates are identified by their FULL names: path-like names sharing a base name "
    "are distinct templates, a cycle among them is still a cycle",
    "blank-body suppression: with suppress_blank_control_flow_blocks=False every "
    "whitespace character is compared exactly; with the default (True) the docs only say "
    "that a body without template content or output statements does not render its "
    "whitespace, so in the blank family the default-configuration modes are compared "
    "with all whitespace removed from both sides (non-whitespace output of the "
    "most-derived override must survive, which is what the property speaks about)",
    "calling a macro whose body contains a block is forbidden by the engine "
    "(DisabledTagError) and not spoken about by the statement: not judged "
    "(dont_care_block_in_called_macro); the block still counts as a definition of its "
    "template (duplicates)",
    "the relation family has no reference model: the direct render of the root is the "
    "reference; variables assigned inside a block are never read after it (block scope)",
    "a history step is judged against the model's answer for that entry alone (renders "
    "are independent); str(template) of a cached template must equal str of a fresh parse",
]

BUDGET = 250_000
MAX_BUDGET_HITS = 60  # then the shard stops: the violation is established, avoid the watchdog
MODES = ("sync", "async", "sync+cache", "async+cache")
ESC_MODES = ("sync+escape", "async+escape")  # Environment(auto_escape=True), hostile data
NOSUP_MODES = ("sync+nosup", "async+nosup", "sync+cache+nosup", "async+cache+nosup")
ESC_D = "<D&\"'>"
SPELL_EVERY = {"struct": 4, "blank": 4}
EXOTIC_NAMES = [
    {"a": "my block", "b": "required", "x": "if", "o": "true", "c": "é1", "e": "x y", "z": "nil"},
    {"a": "required", "b": "a-b", "x": "my block", "o": "é1", "c": "if", "e": "true", "z": "a.b"},
    {"a": "if", "b": "é1", "x": "required", "o": "x y", "c": "true", "e": "my block", "z": "for"},
]
PATH_EVERY = {"cyc": 2}  # every n-th case is also run with path-like template names (default 8)
DATA = {"d": "D", "yes": True, "no": False}

# ---------------------------------------------------------------------------
# abstract chain builders
# ---------------------------------------------------------------------------

FORMS = ("omit", "plain", "super", "req")
DEFINED = ("plain", "super", "req")


def configs() -> list[tuple[str, str, str]]:
    out = [("flat", f1, f2) for f1 in FORMS for f2 in FORMS]
    out += [("12", f1, f2) for f1 in DEFINED for f2 in DEFINED]  # first nests second
    out += [("21", f1, f2) for f1 in DEFINED for f2 in DEFINED]  # second nests first
    return out


CONFIGS = configs()
N_EXH = sum(len(CONFIGS) ** d for d in (1, 2, 3))

# a small representative subset used as carrier chains by the other families
REDUCED = [
    ("flat", "plain", "plain"), ("flat", "super", "omit"), ("flat", "omit", "super"),
    ("12", "plain", "super"), ("21", "super", "plain"), ("flat", "plain", "req"),
    ("flat", "omit", "omit"), ("12", "super", "plain"),
]


def blk(k: str, name: str, form: str, inner: list | None = None, named: bool = False) -> list:
    tag = f"{k}{name}"
    body: list = [["t", f"<{tag}:"]]
    if form in ("super", "super2"):
        body.append(["s"])
    if form == "super2":
        body += [["t", "+"], ["s"]]
    if form == "var":
        body += [["v", "d"], ["t", ","], ["v", "v"], ["t", ","], ["v", "i"]]
    if form == "supervar":
        body += [["v", "d"], ["s"], ["v", "v"], ["v", "i"]]
    if inner:
        body += inner
    body.append(["t", f":{tag}>"])
    return ["b", name, form == "req", body, name if named else None]


def tpl_items(k: int, cfg: tuple[str, str, str], names: tuple[str, str], parent: str | None,
              pfx: str = "") -> list:
    layout, f1, f2 = cfg
    n1, n2 = names
    tid = f"{pfx}{k}"
    root = parent is None
    sep = (lambda j: ["t", ("R(", "|", ")R")[j]]) if root else (lambda j: ["t", f"~{tid}.{j}~"])
    items: list = []
    if not root:
        items.append(["x", parent])
    items.append(sep(0))
    if layout == "flat":
        if f1 != "omit":
            items.append(blk(tid, n1, f1, named=(k % 2 == 1)))
        items.append(sep(1))
        if f2 != "omit":
            items.append(blk(tid, n2, f2))
    elif layout == "12":
        items.append(blk(tid, n1, f1, inner=[blk(tid, n2, f2, named=True)]))
        items.append(sep(1))
    else:
        items.append(sep(1))
        items.append(blk(tid, n2, f2, inner=[blk(tid, n1, f1)], named=(k % 2 == 0)))
    items.append(sep(2))
    return items


def build_chain(cfgs: tuple, names: tuple[str, str] = ("a", "b"), pfx: str = "t") -> tuple[dict, str]:
    """cfgs[0] is the root.  Template names pfx0 (root) .. pfx{d-1} (leaf)."""
    prog: dict[str, list] = {}
    for k, cfg in enumerate(cfgs):
        parent = f"{pfx}{k - 1}" if k else None
        prog[f"{pfx}{k}"] = tpl_items(k, cfg, names, parent, pfx=pfx if pfx != "t" else "")
    return prog, f"{pfx}{len(cfgs) - 1}"


# ---------------------------------------------------------------------------
# shape of a case (mechanism key prefix), computed from the abstract program
# ---------------------------------------------------------------------------


def _walk_ctx(items: list, encl: str | None = None, infor: bool = False) -> Iterator[tuple[list, str | None, bool]]:
    for it in items:
        yield it, encl, infor
        k = it[0]
        if k == "b":
            yield from _walk_ctx(it[3], it[1], infor)
        elif k in ("if", "cap", "mac"):
            yield from _walk_ctx(it[2], encl, infor)
        elif k in M.BODY3:
            yield from _walk_ctx(it[3], encl, k in ("for", "forin") or infor)


def shape(prog: dict, entry: str) -> str:
    chain = M.chain_of(prog, entry)
    if chain is None:
        return "cycle"
    for ti, name in enumerate(chain):
        for it, encl, infor in _walk_ctx(prog[name]):
            if it[0] != "inc":
                continue
            is_root = ti == len(chain) - 1
            if not is_root and encl is None:
                continue  # never rendered
            if len(chain) == 1 and encl is None:
                loc = "from-plain"
            elif encl is not None:
                loc = "inside-block" if (not is_root) else (
                    "inside-root-block" if len(chain) > 1 else "inside-plain-block")
            else:
                loc = "in-root-text"
            tgt = M.chain_of(prog, it[2])
            if it[2].startswith("@"):
                tk = "dynamic"
            else:
                tk = "cycle" if tgt is None else ("chain" if len(tgt) > 1 else "standalone")
            return f"{it[1]}-{tk}-{loc}" + ("-in-for" if infor else "")
    return f"depth{len(chain)}"


def pathmap(prog: dict, variant: int) -> dict[str, str]:
    """Path-like names with repeated base names: the first template keeps a bare name,
    the others live in directories and share its base name (variant 0), alternate
    between two base names (1) or sit at different depths (2)."""
    out = {}
    for i, n in enumerate(prog):
        v = variant % 3
        if v == 0:
            out[n] = "x" if i == 0 else f"d{i}/x"
        elif v == 1:
            out[n] = ("x", "y")[i % 2] if i < 2 else f"d{i}/{('x', 'y')[i % 2]}"
        else:
            out[n] = "x" if i == 0 else "/".join(["d"] * i) + "/x"
    return out


def shape_kind(s: str) -> str:
    return "depth" if s.startswith("depth") else s


# ---------------------------------------------------------------------------
# runner: real executions + judgement
# ---------------------------------------------------------------------------


class Runner:
    def __init__(self, ctx: Ctx) -> None:
        from liquid2 import CachingDictLoader
        from liquid2 import DictLoader
        from liquid2 import Environment
        from liquid2.exceptions import LiquidError
        from liquid2.exceptions import RequiredBlockError
        from liquid2.exceptions import TemplateInheritanceError

        self.ctx = ctx
        self.Environment = Environment
        self.DictLoader = DictLoader
        self.CachingDictLoader = CachingDictLoader
        self.LiquidError = LiquidError
        self.Req = RequiredBlockError
        self.TIE = TemplateInheritanceError
        from liquid2 import BlockNode as _TemplateBlock
        from liquid2 import Node as _Node
        from liquid2 import Tag as _Tag
        from liquid2.shopify.tags.tablerow_tag import TablerowTag

        # a block tag written the way docs/custom_tags.md shows, once with children()
        # and once without it ("can be omitted" when static analysis is not used)
        class BoxNode(_Node):
            __slots__ = ("block",)

            def __init__(self, token, block):  # noqa: ANN001
                super().__init__(token)
                self.block = block
                self.blank = block.blank

            def render_to_output(self, context, buffer):  # noqa: ANN001
                return self.block.render(context, buffer)

            async def render_to_output_async(self, context, buffer):  # noqa: ANN001
                return await self.block.render_async(context, buffer)

            def children(self, static_context, *, include_partials=True):  # noqa: ANN001, ARG002
                yield self.block

        class BoxNoChildrenNode(_Node):
            __slots__ = ("block",)

            def __init__(self, token, block):  # noqa: ANN001
                super().__init__(token)
                self.block = block
                self.blank = block.blank

            def render_to_output(self, context, buffer):  # noqa: ANN001
                return self.block.render(context, buffer)

            async def render_to_output_async(self, context, buffer):  # noqa: ANN001
                return await self.block.render_async(context, buffer)

        def make_tag(name: str, node_cls):  # noqa: ANN001
            class BoxTag(_Tag):
                block = True
                node_class = node_cls
                end_block = frozenset([f"end{name}"])

                def parse(self, stream):  # noqa: ANN001
                    token = stream.current()
                    block_token = stream.next()
                    blk = _TemplateBlock(
                        block_token, self.env.parser.parse_block(stream, end=self.end_block))
                    stream.expect_tag(f"end{name}")
                    return self.node_class(token, blk)

            return BoxTag

        BoxTag = make_tag("box", BoxNode)
        BoxNcTag = make_tag("boxnc", BoxNoChildrenNode)
        _BaseEnv = Environment

        class ExtEnv(_BaseEnv):
            """Default environment + the optional tablerow tag + the two custom tags."""

            def setup_tags_and_filters(self):  # noqa: ANN202
                super().setup_tags_and_filters()
                self.tags["tablerow"] = TablerowTag(self)
                self.tags["box"] = BoxTag(self)
                self.tags["boxnc"] = BoxNcTag(self)

        Environment = ExtEnv
        self.Environment = ExtEnv

        class NoSupEnv(Environment):
            suppress_blank_control_flow_blocks = False

        self.NoSupEnv = NoSupEnv
        self.nosup_cur = False  # also render with blank-block suppression switched off
        self.ws_cur = False  # the program carries blank (whitespace/comment/assign) bodies
        self.sc = StepCounter().start()
        self.minimised: dict[str, list[str]] = {}
        self.flip = False
        self.steps = 0
        self.budget_hits = 0
        self.standalone_dc = False
        self.standalone_participated = False
        self.case_no = 0
        self._in_boxnc_probe = False
        self.bound_base_data: Any = None
        self.style_cur: Any = None
        self.esc_cur = False
        self.what_prefix = ""
        self.last_Eesc: Any = None
        self._strs: dict[tuple[str, str], str] = {}
        self._hist_prog: Any = None
        self._hist_exp: dict = {}

    def close(self) -> None:
        self.sc.stop()

    # -- one real execution ---------------------------------------------------
    def _one(self, env: Any, entry: str, data: dict, is_async: bool) -> tuple:
        sc = self.sc
        sc.reset(BUDGET)
        try:
            if is_async:
                t = drive(env.get_template_async(entry))
                text = drive(t.render_async(**data))
            else:
                t = env.get_template(entry)
                text = t.render(**data)
            return ("out", text)
        except StepBudgetExceeded:
            self.budget_hits += 1
            return ("budget",)
        except RecursionError:
            return ("recursion",)
        except self.LiquidError as e:
            return ("err", type(e).__name__, isinstance(e, self.TIE), isinstance(e, self.Req))
        except Exception as e:  # noqa: BLE001
            return ("exc", type(e).__name__, str(e)[:120])
        finally:
            self.steps = sc.disarm()

    def observe(self, sources: dict[str, str], entry: str, data: dict,
                esc: bool = False, nosup: bool = False) -> dict[str, tuple]:
        env1 = self.Environment(loader=self.DictLoader(dict(sources)))
        env2 = self.Environment(loader=self.CachingDictLoader(dict(sources)))
        obs: dict[str, tuple] = {}
        obs["sync"] = self._one(env1, entry, data, False)
        self.steps_sync = self.steps
        obs["async"] = self._one(env1, entry, data, True)
        order = (True, False) if self.flip else (False, True)
        for a in order:  # the second one is served from the cache
            obs["async+cache" if a else "sync+cache"] = self._one(env2, entry, data, a)
        self.flip = not self.flip
        if esc:
            env3 = self.Environment(loader=self.DictLoader(dict(sources)), auto_escape=True)
            d2 = {**data, "d": ESC_D}
            obs["sync+escape"] = self._one(env3, entry, d2, False)
            obs["async+escape"] = self._one(env3, entry, d2, True)
        if nosup:
            env4 = self.NoSupEnv(loader=self.DictLoader(dict(sources)))
            env5 = self.NoSupEnv(loader=self.CachingDictLoader(dict(sources)))
            obs["sync+nosup"] = self._one(env4, entry, data, False)
            obs["async+nosup"] = self._one(env4, entry, data, True)
            for a in ((False, True) if self.flip else (True, False)):
                obs["async+cache+nosup" if a else "sync+cache+nosup"] = self._one(env5, entry, data, a)
        return obs

    # -- judgement --------------------------------------------------------------
    def judge(self, E: M.Outcome, A: tuple, modws: bool = False) -> str | None:
        """modws: compare texts with all whitespace removed (suppression of blank
        bodies is on and the program has blank bodies: what happens to the whitespace
        of a blank body is the suppression feature's business, not this property's)."""
        if A[0] == "budget":
            return "no-termination-within-step-budget"
        if A[0] == "recursion":
            # ill-formed mutual nesting only has to stop; RecursionError as such is C02's
            return None if (E.kind == "err" and E.err == "recursive-nesting") else "RecursionError"
        if A[0] == "exc":
            return f"unexpected-{A[1]}"
        if E.kind == "out":
            if A[0] == "out":
                if modws:
                    return None if _nows(A[1]) == _nows(E.text) else "wrong-output"
                return None if A[1] == E.text else "wrong-output"
            if E.dont_care and A[3]:
                return None
            return f"unexpected-{A[1]}"
        kind = E.err
        if kind == "block-in-called-macro":
            return None  # not judged (see ASSUMPTIONS); it terminated
        if kind == "recursive-nesting":
            # no finite meaning; the engine only has to stop with a Liquid error
            return "recursive-nesting-no-error" if A[0] == "out" else None
        if kind == "required":
            if A[0] == "out":
                return "required-not-raised"
            return None if A[3] else f"required-wrong-error-class-{A[1]}"
        if A[0] == "out":
            return f"{kind}-no-error"
        return None if A[2] else f"{kind}-wrong-error-class-{A[1]}"

    def refine(self, what: str, prog: dict, entry: str, data: dict, A: tuple) -> str:
        """Name the mechanism of a mismatch by further executions / alternative
        (deliberately wrong) semantics of the model.  Only runs on a mismatch."""
        has_inc = any(M.includes_of(items) for items in prog.values())
        if has_inc and any(
                it[1] == "include" for items in prog.values() for it in M.includes_of(items)):
            swapped = copy.deepcopy(prog)
            for items in swapped.values():
                for it in M.includes_of(items):
                    if it[1] == "include" and not it[2].startswith("@"):
                        it[1] = "render"
                        it[3] = {**{v: v for v in ("v", "i", "j", "k")}, **it[3]}
            E2 = M.expected(swapped, entry, data)
            obs2 = self.observe(M.emit(swapped), entry, data)
            if all(self.judge(E2, a) is None for a in obs2.values()):
                # the same program is right once the partial gets its own tag
                # namespace: the block stacks were shared with the including chain
                # (or, when no chain is live around the include, left over from an
                # earlier chain rendered in the same context)
                if "from-plain" in shape(prog, entry):
                    return "stale-block-stacks"
                return "shared-block-stacks"
        if what == "wrong-output":
            text = A[1]
            if "^" in text:
                return "text-before-extends-leaks"
            chain = M.chain_of(prog, entry) or []
            if any(it[0] == "cap" and M.extends_of(it[2]) for n in chain[:1]
                   for it, _ in M.walk(prog[n])):
                # the entry's extends tag runs inside a capture: the whole page goes
                # into the capture buffer and the render stops
                return "extends-inside-capture-output-lost"
            if "~" in text:
                return "stray-child-text-leaks"
            for name, sem in (
                ("less-derived-definition-wins", M.Sem(select="least")),
                ("super-renders-base-most-definition", M.Sem(sup="base")),
                ("super-renders-nothing", M.Sem(sup="none")),
            ):
                alt = M.expected(prog, entry, data, sem)
                if alt.kind == "out" and alt.text == text:
                    return name
        if what == "unexpected-RequiredBlockError":
            chain = M.chain_of(prog, entry) or []
            flags: dict[str, list[bool]] = {}
            for name in chain:
                for b in M.block_defs(prog[name]):
                    flags.setdefault(b[1], []).append(bool(b[2]))
            if any((not f[0]) and any(f[1:]) for f in flags.values()):
                return "required-not-reset-by-override"
        return what

    def evaluate(self, prog: dict, entry: str, data: dict,
                 esc: bool | None = None) -> tuple[str | None, M.Outcome, dict]:
        """-> (what-with-modes or None, expected, observations)."""
        esc = self.esc_cur if esc is None else esc
        standalone = _has_standalone_block_include(prog)
        esc = esc and not standalone
        E = M.expected(prog, entry, data)
        obs = self.observe(M.emit(prog), entry, data, esc, self.nosup_cur)
        Eesc = M.expected(prog, entry, {**data, "d": ESC_D}, escape=True) if esc else None
        self.last_Eesc = Eesc
        exp = {m: (Eesc if m in ESC_MODES else E) for m in obs}
        bad = {m: self.judge(exp[m], a, modws=self.ws_cur and m not in NOSUP_MODES)
               for m, a in obs.items()}
        bad = {m: w for m, w in bad.items() if w}
        self.standalone_dc = False
        if standalone:
            # not pinned by the property: blocks of a merely included template may or
            # may not be resolved by the including chain; all four modes must agree
            # with one of the two readings
            E2 = M.expected(prog, entry, data, M.Sem(standalone="participate"))
            if E2.sig() != E.sig() or E2.dont_care != E.dont_care:
                self.standalone_dc = True
                if bad and all(self.judge(E2, a) is None for a in obs.values()):
                    self.standalone_participated = True
                    return None, E2, obs
        if not bad:
            return None, E, obs
        modes = [m for m in (*MODES, *ESC_MODES, *NOSUP_MODES) if m in obs]
        m0 = next(m for m in modes if m in bad)
        if (self.nosup_cur and set(bad.values()) == {"wrong-output"}
                and not any(m in NOSUP_MODES for m in bad)
                and all(m in bad for m in MODES)
                and len(_nows(obs[m0][1])) < len(_nows(E.text))):
            # right with suppression of blank bodies switched off, text missing with it on
            return self.what_prefix + "output-dropped-by-blank-suppression", E, obs
        if m0 in ESC_MODES:
            what = self.refine_esc(bad[m0], prog, entry, {**data, "d": ESC_D}, obs[m0])
        else:
            what = self.refine(bad[m0], prog, entry, data, obs[m0])
        if len(bad) < len(modes) or len(set(bad.values())) > 1:
            what += "@" + ",".join(m for m in modes if m in bad)
        if self.bound_base_data is not None and not self._in_boxnc_probe:
            # counterfactual: the same sources rendered WITHOUT the data that binds the
            # written template / block names; right there => a name was read as a variable
            base_data, self.bound_base_data = self.bound_base_data, None
            self._in_boxnc_probe = True
            try:
                w2, _, _ = self.evaluate(prog, entry, base_data, esc)
            finally:
                self._in_boxnc_probe = False
                self.bound_base_data = base_data
            if w2 is None:
                what = "written-name-resolved-through-render-data"
        if not self._in_boxnc_probe and any(
                it[0] == "boxnc" for items in prog.values() for it, _ in M.walk(items)):
            # counterfactual: the same program with the custom tag that DOES report its
            # children; if that one is right, the nodes were hidden by the missing children()
            swapped = copy.deepcopy(prog)
            for items in swapped.values():
                for it, _ in M.walk(items):
                    if it[0] == "boxnc":
                        it[0] = "box"
            self._in_boxnc_probe = True
            try:
                w2, _, _ = self.evaluate(swapped, entry, data, esc)
            finally:
                self._in_boxnc_probe = False
            if w2 is None:
                what = "inheritance-nodes-inside-custom-tag-without-children-invisible"
        return self.what_prefix + what, E, obs

    def refine_esc(self, what: str, prog: dict, entry: str, data: dict, A: tuple) -> str:
        if what == "wrong-output":
            for name, sem in (
                ("super-output-escaped-again", M.Sem(super_reescape=True)),
                ("less-derived-definition-wins", M.Sem(select="least")),
                ("super-renders-base-most-definition", M.Sem(sup="base")),
                ("super-renders-nothing", M.Sem(sup="none")),
            ):
                alt = M.expected(prog, entry, data, sem, escape=True)
                if alt.kind == "out" and alt.text == A[1]:
                    return name
            return "wrong-output-under-auto-escape"
        return what

    # -- a full case --------------------------------------------------------------
    def case(self, family: str, prog: dict, entry: str, data: dict | None = None) -> str | None:
        """The case itself; every n-th case additionally with path-like template names
        in which several chain members share a base name."""
        data = DATA if data is None else data
        self.case_no += 1
        n = self.case_no
        uses_super = any(it[0] == "s" for items in prog.values() for it, _ in M.walk(items))
        self.esc_cur = (family == "ctl" or n % 16 == 0 or (uses_super and n % 4 == 0)) and (
            family != "cont")
        self.nosup_cur = family == "blank" or n % 32 == 0
        self.ws_cur = family == "blank"
        self.what_prefix = ""
        key = self._case_one(family, prog, entry, data)
        if n % PATH_EVERY.get(family, 8) == 0:
            p2, e2, d2 = M.rename(prog, entry, data, pathmap(prog, n // 8))
            self.what_prefix = "" if key else "path-names:"
            self.ctx.count("path_named_cases")
            if M.chain_of(p2, e2) is None:
                self.ctx.count("path_named_cyclic")
            elif len(M.chain_of(p2, e2) or []) > 1:
                self.ctx.count("path_named_chains")
            k2 = self._case_one(family + "+paths", p2, e2, d2)
            self.what_prefix = ""
            key = key or k2
        every = SPELL_EVERY.get(family, 8)
        if n % every == every // 2 and family != "cont":
            # the same case written differently: quoted / keyword-like / spaced / unicode
            # block names, endblock names, whitespace control, {% liquid %} line form
            v = n // every
            p3 = M.rename_blocks(prog, EXOTIC_NAMES[v % len(EXOTIC_NAMES)]) if v % 2 else prog
            self.what_prefix = "" if key else "spelling:"
            self.style_cur = (v, not self.ws_cur, True)
            M.set_style(self.style_cur)
            # ... and rendered with data that binds the very names written in the
            # templates (template names, block names) to OTHER template names, a missing
            # name and non-strings: names are names, never variables
            self.bound_base_data = dict(data)
            tnames = list(prog)
            bnames = sorted({b[1] for items in p3.values() for b in M.block_defs(items)})
            vals = [*tnames, "no-such-template", 7, ["t0"], ""]
            data = dict(data)
            for j, nm in enumerate([*tnames, *bnames]):
                if nm not in data and nm.isidentifier():
                    val = vals[(v + 3 * j + 1) % len(vals)]
                    data[nm] = val if val != nm else "no-such-template"
            try:
                self.ctx.count("spelling_cases")
                self.ctx.count("name_bound_cases")
                srcs = "".join(M.emit(p3).values())
                if " required " in srcs or " required\n" in srcs:
                    self.ctx.count("spelling_cases_with_required")
                if "block '" in srcs or 'block "' in srcs:
                    self.ctx.count("spelling_cases_quoted_name")
                if "{% extends t" in srcs or "{% extends n" in srcs or "{% extends o" in srcs or (
                        "{% extends g" in srcs or "{% extends h" in srcs):
                    self.ctx.count("bare_extends_cases")
                k3 = self._case_one(family + "+spelling", p3, entry, data)
            finally:
                M.set_style(None)
                self.bound_base_data = None
                self.style_cur = None
                self.what_prefix = ""
            key = key or k3
        return key

    def _case_one(self, family: str, prog: dict, entry: str, data: dict) -> str | None:
        ctx = self.ctx
        what, E, obs = self.evaluate(prog, entry, data)
        ctx.ev(len(obs))
        if self.nosup_cur:
            ctx.count("nosuppress_cases")
        if self.ws_cur and E.kind == "out" and any(
                a[0] == "out" and a[1] != E.text for m, a in obs.items() if m in MODES):
            # diagnostic, not judged: whitespace of a blank block body / override dropped
            # by the default blank-body suppression (exact with suppression off)
            ctx.count("blank_whitespace_dropped_by_default_suppression")
        if self.last_Eesc is not None:
            ctx.count("auto_escape_cases")
            ctx.count("auto_escape_supers_checked", self.last_Eesc.stats["supers"])
        if self.standalone_dc:
            ctx.count("dont_care_standalone_include_blocks")
            if self.standalone_participated:
                ctx.count("dont_care_standalone_include_blocks_participated")
            self.standalone_participated = False
        ctx.mx("max:steps_ill_formed" if E.err == "recursive-nesting" else "max:steps_well_formed",
               self.steps_sync)
        ctx.count("comparisons")
        ctx.count(f"cases_{family}")
        st = E.stats
        if E.kind == "err":
            if E.err in ("missing", "model-budget"):
                ctx.note(f"generator produced an ill-formed case ({E.err}) in {family}")
                return None
            if E.err == "block-in-called-macro":
                ctx.count("dont_care_block_in_called_macro")
                return None
            if E.err == "recursive-nesting":
                ctx.count("invalid_recursive_nesting")
                if family == "exh":
                    ctx.count("exh_invalid_recursive_nesting")
            else:
                ctx.count("error_cases")
            ctx.seen("expected_error_kinds", E.err)
            for a in obs.values():
                if a[0] == "err":
                    ctx.seen("error_classes_observed", a[1])
        else:
            ctx.count("supers_checked", st["supers"])
            ctx.count("nested_block_resolutions", st["nested"])
            ctx.count("overrides_applied", st["overrides"])
            if E.dont_care:
                ctx.count("dont_care_required")
                if any(a[0] == "err" for a in obs.values()):
                    ctx.count(f"dont_care_required_raised_{family}")
        ctx.mx("max:chain_depth", st["max_depth"])
        if (st["max_depth"] >= 2 and st["overrides"] >= 1) or E.kind == "err":
            ctx.nt(repr(prog), entry, repr(data))
        if what is None:
            return None
        key = self.report(family, prog, entry, data, what, E, obs)
        if self.budget_hits > MAX_BUDGET_HITS:
            ctx.note(f"shard stopped after {self.budget_hits} step-budget hits ({key})")
            ctx.truncated = True
            raise Stop()
        return key

    def report(self, family: str, prog: dict, entry: str, data: dict, what: str,
               E: M.Outcome, obs: dict) -> str:
        ctx = self.ctx
        sh = shape(prog, entry)
        raw = f"{shape_kind(sh)}:{what}"
        keys = self.minimised.setdefault(raw, [])
        wprog, wE, wobs = prog, E, obs
        if len(keys) < 1:
            small = self.minimise(prog, entry, data, what, shape_kind(sh))
            w2, E2, obs2 = self.evaluate(small, entry, data)
            if w2 == what:
                wprog, wE, wobs = small, E2, obs2
            key = f"{shape(wprog, entry)}:{what}"
            keys.append(key)
        else:
            key = keys[0]
        descr = (
            f"expected {wE.sig()!r}"
            + (f" (auto_escape: {self.last_Eesc.sig()!r})" if self.last_Eesc is not None else "")
            + ", observed " + "; ".join(f"{m}={a[:2]!r}" for m, a in wobs.items())
        )
        ctx.violation(key, descr[:700], {
            "family": family, "prog": wprog, "entry": entry, "data": data,
            "esc": self.esc_cur, "what_prefix": self.what_prefix,
            "nosup": self.nosup_cur, "ws": self.ws_cur,
            "style": list(self.style_cur) if self.style_cur else None,
            "sources": M.emit(wprog), "expected": list(wE.sig()),
            "observed": {m: list(a) for m, a in wobs.items()},
        })
        return key

    # -- relation: direct == through descendants that change nothing ---------------
    def _rel_still(self, root: dict, which: str) -> bool:
        """Cheap re-check used while shrinking: does observation *which* still differ
        from the direct render?"""
        src = rel_source(root)
        e1 = self.Environment(loader=self.DictLoader({"leaf": src}))
        ref = self._one(e1, "leaf", DATA, False)
        if ref[0] != "out":
            return False
        name, mode = which.split("/")
        if name == "direct":
            cls_ = self.CachingDictLoader if "cache" in mode else self.DictLoader
            env = self.Environment(loader=cls_({"leaf": src}))
        else:
            tpls = rel_variants(root)[name]
            cls_ = self.CachingDictLoader if "cache" in mode else self.DictLoader
            env = self.Environment(loader=cls_(dict(tpls)))
        return self._one(env, "leaf", DATA, "async" in mode) != ref

    def _rel_eval(self, root: dict) -> tuple[str | None, dict]:
        src = rel_source(root)
        obs: dict[str, tuple] = {}
        e1 = self.Environment(loader=self.DictLoader({"leaf": src}))
        e2 = self.Environment(loader=self.CachingDictLoader({"leaf": src}))
        obs["direct/sync"] = self._one(e1, "leaf", DATA, False)
        ref = obs["direct/sync"]
        if ref[0] != "out":
            return "root-error", obs
        obs["direct/async"] = self._one(e1, "leaf", DATA, True)
        obs["direct/sync+cache"] = self._one(e2, "leaf", DATA, False)
        obs["direct/async+cache"] = self._one(e2, "leaf", DATA, True)
        for name, tpls in rel_variants(root).items():
            env = self.Environment(loader=self.DictLoader(dict(tpls)))
            obs[f"{name}/sync"] = self._one(env, "leaf", DATA, False)
            obs[f"{name}/async"] = self._one(env, "leaf", DATA, True)
            if name in ("p3", "s2"):
                envc = self.Environment(loader=self.CachingDictLoader(dict(tpls)))
                obs[f"{name}/async+cache"] = self._one(envc, "leaf", DATA, True)
                obs[f"{name}/sync+cache"] = self._one(envc, "leaf", DATA, False)
        bad = [k for k, a in obs.items() if a != ref]
        if not bad:
            return None, obs
        if any(k.startswith("direct/") for k in bad):
            cls = "direct-modes-disagree"
        elif any(k.startswith("p") for k in bad):
            cls = "direct-vs-passthrough-chain"
        else:
            cls = "direct-vs-super-only-chain"
        if any(a[0] == "budget" for a in obs.values()):
            cls += ":no-termination-within-step-budget"
        elif all("async" in k for k in bad):
            cls += "@async"
        elif not any("async" in k for k in bad):
            cls += "@sync"
        return cls, obs

    def relation(self, root: dict) -> str | None:
        ctx = self.ctx
        cls, obs = self._rel_eval(root)
        ctx.ev(len(obs))
        if cls == "root-error":
            ctx.count("rel_root_errors")
            return None
        src = rel_source(root)
        ctx.count("rel_roots")
        ctx.count("rel_comparisons", len(obs) - 1)
        ctx.nt("rel", src)
        for f in REL_FEATURES:
            if f in src:
                ctx.seen("rel_features", f)
        if "{% for i in (1..3) %}{% block" in src:
            ctx.count("rel_roots_block_in_loop")
        if cls is None:
            return None
        first_bad = next(k for k, a in obs.items() if a != obs["direct/sync"])
        # the mechanism is named on the ORIGINAL failing root, by knocking stateful
        # features out one at a time (bounded: <= 13 cheap re-checks), never by how far
        # the witness minimiser happened to get
        key = f"relation:{cls}:{self._rel_classify(root, first_bad)}"
        keys = self.minimised.setdefault("rel", [])
        wroot, wobs = root, obs
        if len(keys) < 30:  # shrink the witness for the first failures of a shard only
            keys.append(key)
            small = self._rel_minimise(root, first_bad)
            c2, o2 = self._rel_eval(small)
            if c2 == cls and self._rel_classify(small, first_bad) == key.rsplit(":", 1)[1]:
                wroot, wobs = small, o2
        ref = wobs["direct/sync"]
        diff = {k: a for k, a in wobs.items() if a != ref}
        descr = f"direct render {ref[:2]!r}; differing: " + "; ".join(
            f"{k}={a[:2]!r}" for k, a in list(diff.items())[:4])
        vs = rel_variants(wroot)
        k0 = next(iter(diff)).split("/")[0]
        ctx.violation(key, descr[:700], {
            "family": "rel", "root": wroot, "root_source": rel_source(wroot),
            "first_differing_variant": vs.get(k0, {}), "observed": {k: list(a) for k, a in wobs.items()},
        })
        return key

    def _rel_classify(self, root: dict, which: str) -> str:
        """Which stateful features does the failure of observation *which* NEED?
        Features are removed one after the other (all fragments using the feature);
        a removal that leaves the failure in place is kept, one that makes the relation
        hold again is undone: what remains are the necessary features."""
        cur = root
        need: list[str] = []
        for f in REL_FEATURES:
            if f not in rel_source(cur):
                continue
            cand = _rel_knockout(cur, f)
            if rel_source(cand) != rel_source(cur) and self._rel_still(cand, which):
                cur = cand
            else:
                need.append(f.replace("{% ", "").replace(": ", "-"))
        if "break" in need or "continue" in need:
            return "loop-interrupt"  # output written before break/continue is lost
        if "parentloop" in need:
            return "parentloop"
        # nothing stateful is needed: the plain structure (wrappers, nesting) fails
        return "+".join(need) or "plain"

    def _rel_minimise(self, root: dict, which: str, max_tests: int = 70) -> dict:
        tests = 0

        def cands(rt: dict) -> Iterator[dict]:
            for i in range(len(rt["elems"])):
                c = copy.deepcopy(rt)
                del c["elems"][i]
                yield c
            for i in range(len(rt["pre"])):
                c = copy.deepcopy(rt)
                del c["pre"][i]
                yield c
            for i, el in enumerate(rt["elems"]):
                if el["k"] != "b":
                    continue
                if el.get("inner"):
                    c = copy.deepcopy(rt)
                    c["elems"][i]["inner"] = None
                    yield c
                    for j in range(len(el["inner"]["body"])):
                        c = copy.deepcopy(rt)
                        del c["elems"][i]["inner"]["body"][j]
                        yield c
                if el["wrap"] != "none":
                    c = copy.deepcopy(rt)
                    c["elems"][i]["wrap"] = "none"
                    yield c
                for j in range(len(el["body"])):
                    c = copy.deepcopy(rt)
                    del c["elems"][i]["body"][j]
                    yield c

        cur = root
        progress = True
        while progress and tests < max_tests:
            progress = False
            for c in cands(cur):
                if tests >= max_tests:
                    break
                tests += 1
                if self._rel_still(c, which):
                    cur = c
                    progress = True
                    break
        return cur

    # -- reuse of one Template object --------------------------------------------------
    def reuse(self, base: dict, muts: list[str], theme: bool = False) -> str | None:  # noqa: ARG002
        """Load the leaf ONCE, then change its ancestors in the loader between renders.
        Every render of the same object must equal what a fresh load renders now, i.e.
        the model's answer for the universe as it is at that moment."""
        ctx = self.ctx
        loader = self.DictLoader(dict(M.emit(base)))
        env = self.Environment(loader=loader)
        leaf = env.get_template("t2")
        cur = copy.deepcopy(base)
        trail: list = []
        for step, mut in enumerate(["initial", *muts]):
            if step:
                cur = _reuse_apply(base, cur, mut, step)
                loader.templates.clear()
                loader.templates.update(M.emit(cur))
            E = M.expected(cur, "t2", DATA)
            is_async = step % 2 == 1
            self.sc.reset(BUDGET)
            try:
                text = drive(leaf.render_async(**DATA)) if is_async else leaf.render(**DATA)
                a: tuple = ("out", text)
            except StepBudgetExceeded:
                a = ("budget",)
            except self.LiquidError as e:
                a = ("err", type(e).__name__, isinstance(e, self.TIE), isinstance(e, self.Req))
            except Exception as e:  # noqa: BLE001
                a = ("exc", type(e).__name__, str(e)[:100])
            finally:
                self.sc.disarm()
            ctx.ev()
            ctx.count("reuse_renders")
            trail.append([mut, "async" if is_async else "sync", list(E.sig()), list(a[:2])])
            w = self.judge(E, a)
            if w:
                # is a FRESH load right?  then the reused object remembered something
                fresh = self._one(self.Environment(loader=self.DictLoader(dict(M.emit(cur)))),
                                  "t2", DATA, is_async)
                stale = self.judge(E, fresh) is None
                key = ("reuse:template-object-remembers-ancestors" if stale else f"reuse:{w}")
                ctx.violation(key, f"after {[t[0] for t in trail]}: expected {E.sig()!r}, the "
                              f"reused leaf object rendered {a[:2]!r}, a fresh load {fresh[:2]!r}",
                              {"family": "reuse", "base": base, "mutations": muts, "trail": trail,
                               "sources_now": M.emit(cur)})
                return key
        return None

    def reuse_theme(self, cfg: tuple, seq: list[str]) -> str | None:
        ctx = self.ctx
        DictLoader = self.DictLoader
        progs = {}
        for th in ("light", "dark"):
            p, _ = build_chain((cfg, ("flat", "super", "super")))
            p["t0"] = [["t", f"{th}:"], *p["t0"]]
            progs[th] = p

        class ThemeLoader(DictLoader):
            def _name(self, name, context):  # noqa: ANN001, ANN202
                if name == "t0" and context is not None:
                    return f"{context.resolve('theme', default='light')}/t0"
                return name

            def get_source(self, env, template_name, *, context=None, **kwargs):  # noqa: ANN001, ANN003
                return super().get_source(env, self._name(template_name, context),
                                          context=context, **kwargs)

            async def get_source_async(self, env, template_name, *, context=None, **kwargs):  # noqa: ANN001, ANN003
                return super().get_source(env, self._name(template_name, context),
                                          context=context, **kwargs)

        src = {"t1": M.emit(progs["light"])["t1"],
               "light/t0": M.emit(progs["light"])["t0"], "dark/t0": M.emit(progs["dark"])["t0"]}
        env = self.Environment(loader=ThemeLoader(src))
        leaf = env.get_template("t1")
        trail = []
        for step, th in enumerate(seq):
            data = {**DATA, "theme": th}
            E = M.expected(progs[th], "t1", data)
            a = self._render_obj(leaf, data, step % 2 == 1)
            ctx.ev()
            ctx.count("reuse_theme_renders")
            trail.append([th, list(E.sig()), list(a[:2])])
            if self.judge(E, a):
                key = "reuse:template-object-remembers-ancestors"
                ctx.violation(key, f"context-aware loader, themes {seq[: step + 1]}: expected "
                              f"{E.sig()!r}, the reused leaf object rendered {a[:2]!r}",
                              {"family": "reuse-theme", "cfg": list(cfg), "themes": seq,
                               "trail": trail, "sources": src})
                return key
        return None

    def _render_obj(self, tpl: Any, data: dict, is_async: bool) -> tuple:
        self.sc.reset(BUDGET)
        try:
            text = drive(tpl.render_async(**data)) if is_async else tpl.render(**data)
            return ("out", text)
        except StepBudgetExceeded:
            return ("budget",)
        except self.LiquidError as e:
            return ("err", type(e).__name__, isinstance(e, self.TIE), isinstance(e, self.Req))
        except Exception as e:  # noqa: BLE001
            return ("exc", type(e).__name__, str(e)[:100])
        finally:
            self.sc.disarm()

    # -- histories -----------------------------------------------------------------
    def _run_history(self, loader_cls: Any, sources: dict[str, str], steps: list, data: dict) -> list[tuple]:
        env = self.Environment(loader=loader_cls(dict(sources)))
        return [self._one(env, e, data, m == "async") for e, m in steps]

    def _str_of(self, name: str, src: str) -> str:
        k = (name, src)
        v = self._strs.get(k)
        if v is None:
            env = self.Environment(loader=self.DictLoader({name: src}))
            v = self._strs[k] = str(env.get_template(name))
        return v

    def _history_verdict(self, prog: dict, steps: list, data: dict, loader: str
                         ) -> tuple[str | None, int, list, list]:
        """First step whose outcome differs from the model's answer for that entry
        alone -> (what, step index, expected sigs, observations)."""
        sub = {}
        for e, _ in steps:
            for n in M.chain_of(prog, e) or [e]:
                sub[n] = prog[n]
        sources = M.emit(sub)
        cls = self.CachingDictLoader if loader == "caching" else self.DictLoader
        env = self.Environment(loader=cls(dict(sources)))
        exp, obs = [], []
        for j, (e, m) in enumerate(steps):
            E = self._hist_exp.get((id(prog), e))
            if E is None:
                E = self._hist_exp[(id(prog), e)] = M.expected(prog, e, data)
            a = self._one(env, e, data, m == "async")
            exp.append(E)
            obs.append(a)
            w = self.judge(E, a)
            if w:
                return w, j, exp, obs
        if loader == "caching":
            # the parsed templates are shared by every later render: they must still
            # say what their source says
            for n, src in sources.items():
                try:
                    now = str(env.get_template(n))
                except self.LiquidError:
                    continue
                if now != self._str_of(n, src):
                    return "template-mutated", len(steps) - 1, exp, obs
        return None, -1, exp, obs

    def history(self, prog: dict, steps: list, data: dict) -> str | None:
        ctx = self.ctx
        if self._hist_prog is not prog:
            self._hist_prog = prog
            self._hist_exp = {}
        key = None
        for loader in ("caching", "plain"):
            what, j, exp, obs = self._history_verdict(prog, steps, data, loader)
            ctx.ev(len(obs))
            ctx.count("history_steps", len(obs))
            if loader == "caching":
                ctx.count("histories")
                if len({e for e, _ in steps}) > 1:
                    ctx.count("histories_distinct_entries")
                kinds = {x.kind if x.kind == "out" else x.err for x in exp}
                if "required" in kinds and "out" in kinds:
                    ctx.count("histories_mixing_required_error_and_output")
                    ctx.nt("hist", repr(sorted(M.emit(prog).items())), repr(steps))
                for x in exp:
                    if x.kind == "err" and x.err != "recursive-nesting":
                        ctx.count("error_cases")
                    elif x.kind == "out":
                        ctx.count("supers_checked", x.stats["supers"])
            if what is None:
                continue
            # shrink: drop earlier steps while the last (failing) step keeps failing
            steps2 = steps[: j + 1]
            changed = True
            while changed and len(steps2) > 1:
                changed = False
                for d in range(len(steps2) - 1):
                    cand = steps2[:d] + steps2[d + 1:]
                    w2, j2, _, _ = self._history_verdict(prog, cand, data, loader)
                    if w2 == what and j2 == len(cand) - 1:
                        steps2 = cand
                        changed = True
                        break
            w3, j3, exp3, obs3 = self._history_verdict(prog, steps2, data, loader)
            if w3 != what:
                steps2, exp3, obs3 = steps[: j + 1], exp, obs
            alone = len(steps2) == 1
            pfx = ("" if alone else "after-other-render:") if loader == "plain" else (
                "" if alone else "caching-loader-after-other-render:")
            key = f"history:{pfx}{what}"
            sub = {}
            for e, _ in steps2:
                for n in M.chain_of(prog, e) or [e]:
                    sub[n] = prog[n]
            descr = "; ".join(
                f"step {i} {e}/{m}: expected {x.sig()!r} observed {a[:2]!r}"
                for i, ((e, m), x, a) in enumerate(zip(steps2, exp3, obs3)))
            ctx.violation(key, descr[:700], {
                "family": "hist", "prog": sub, "steps": steps2, "loader": loader, "data": data,
                "sources": M.emit(sub),
            })
            break
        return key

    # -- minimisation over the abstract program ---------------------------------------
    def minimise(self, prog: dict, entry: str, data: dict, what: str, skind: str,
                 max_tests: int = 160) -> dict:
        tests = 0

        def still(p: dict) -> bool:
            nonlocal tests
            tests += 1
            if shape_kind(shape(p, entry)) != skind:
                return False
            E = M.expected(p, entry, data)
            if E.kind == "err" and E.err in ("missing", "model-budget"):
                return False
            w, _, _ = self.evaluate(p, entry, data)
            return w == what

        import time

        t_end = time.time() + 30.0
        cur = _prune(prog, entry)
        progress = True
        while progress and tests < max_tests and time.time() < t_end:
            progress = False
            for cand in _variants(cur, entry):
                if tests >= max_tests or time.time() > t_end:
                    break
                cand = _prune(cand, entry)
                if _size(cand) >= _size(cur):
                    continue
                if still(cand):
                    cur = cand
                    progress = True
                    break
        return cur


def _nows(s: str) -> str:
    return "".join(s.split())


def _has_standalone_block_include(prog: dict) -> bool:
    for items in prog.values():
        for it in M.includes_of(items):
            tgt = prog.get(it[2])
            if it[1] == "include" and tgt is not None and not M.extends_of(tgt) and M.block_defs(tgt):
                return True
    return False


def _size(prog: dict) -> int:
    return sum(1 + sum(1 for _ in M.walk(items)) for items in prog.values()) * 1000 + sum(
        len(M.emit_items(items)) for items in prog.values())


def _prune(prog: dict, entry: str) -> dict:
    """Drop templates not reachable from entry through extends / include / render."""
    keep: list[str] = []
    todo = [entry]
    while todo:
        n = todo.pop()
        if n in keep or n not in prog:
            continue
        keep.append(n)
        todo.extend(M.extends_of(prog[n]))
        if any(it[2].startswith("@") for it in M.includes_of(prog[n])):
            return dict(prog)  # names come from data: keep everything
        todo.extend(it[2] for it in M.includes_of(prog[n]))
    return {n: prog[n] for n in prog if n in keep}


def _paths(items: list, pre: tuple = ()) -> Iterator[tuple]:
    for i, it in enumerate(items):
        yield (*pre, i)
        bi = M.body_index(it)
        if bi is not None:
            yield from _paths(it[bi], (*pre, i, bi))


def _get_parent(items: list, path: tuple) -> tuple[list, int]:
    cur = items
    for p in path[:-1]:
        cur = cur[p]
    return cur, path[-1]


def _retarget(items: list, old: str, new: str | None) -> list:
    out = []
    for it in items:
        if it[0] == "x" and it[1] == old:
            if new is not None:
                out.append(["x", new])
            continue
        it = list(it)
        bi = M.body_index(it)
        if bi is not None:
            it[bi] = _retarget(it[bi], old, new)
        out.append(it)
    return out


def _variants(prog: dict, entry: str) -> Iterator[dict]:
    # 1. splice a template out of its chain
    for t in list(prog):
        if t == entry:
            continue
        if any(it[2] == t for items in prog.values() for it in M.includes_of(items)):
            continue
        ex = M.extends_of(prog[t])
        parent = ex[0] if ex else None
        p2 = copy.deepcopy(prog)
        del p2[t]
        for name in p2:
            p2[name] = _retarget(p2[name], t, None if parent == name else parent)
        yield p2
    # 2. delete an item / unwrap a container / clear flags
    for name in list(prog):
        for path in list(_paths(prog[name])):
            p2 = copy.deepcopy(prog)
            lst, i = _get_parent(p2[name], path)
            del lst[i]
            yield p2
        for path in list(_paths(prog[name])):
            lst0, i = _get_parent(prog[name], path)
            it = lst0[i]
            if it[0] in ("b", "if", "for", "unless", "case", "with"):
                p2 = copy.deepcopy(prog)
                lst, i = _get_parent(p2[name], path)
                body = lst[i][M.body_index(it)]
                lst[i : i + 1] = body
                yield p2
            if it[0] == "b" and (it[2] or it[4] == it[1]):
                p2 = copy.deepcopy(prog)
                lst, i = _get_parent(p2[name], path)
                if lst[i][2]:
                    lst[i][2] = False
                else:
                    lst[i][4] = None
                yield p2
            if it[0] == "for" and it[2] > 1:
                p2 = copy.deepcopy(prog)
                lst, i = _get_parent(p2[name], path)
                lst[i][2] = 1
                yield p2


# ---------------------------------------------------------------------------
# families
# ---------------------------------------------------------------------------


def exh_cases() -> Iterator[tuple[dict, str]]:
    for d in (1, 2, 3):
        for cfgs in itertools.product(CONFIGS, repeat=d):
            yield cfgs  # type: ignore[misc]


def _fam_exh(r: Runner, spec: dict, ctx: Ctx) -> None:
    i, n = spec["i"], spec["n"]
    last = None
    for idx, cfgs in enumerate(exh_cases()):
        if idx % n != i:
            continue
        prog, entry = build_chain(cfgs)  # type: ignore[arg-type]
        r.case("exh", prog, entry)
        ctx.count("exh_chains")
        last = (prog, entry)
        if idx % 512 == i:
            ctx.check_deadline()
    if last:
        ctx.sample({"family": "exh", "sources": M.emit(last[0]), "entry": last[1],
                    "expected": M.expected(last[0], last[1], DATA).sig()})


WRAPS = ("none", "if-yes", "if-no", "for2", "for0")


def _wrap(item: list, w: str) -> list:
    if w == "none":
        return item
    if w == "if-yes":
        return ["if", "yes", [item]]
    if w == "if-no":
        return ["if", "no", [item]]
    if w == "for2":
        return ["for", "i", 2, [["t", "("], ["v", "i"], ["t", ")"], item]]
    return ["for", "i", 0, [item]]


CTL_FORMS = ("plain", "super", "super2", "var", "supervar", "req", "omit")


def ctl_cases(rng: random.Random, per: int) -> Iterator[tuple[dict, str]]:
    """Root blocks inside if/for; bodies reading variables; block.super twice."""
    child_cfgs = [("flat", f1, f2) for f1 in CTL_FORMS for f2 in CTL_FORMS]
    child_cfgs += [(lay, f1, f2) for lay in ("12", "21") for f1 in ("plain", "super2", "supervar")
                   for f2 in ("plain", "super", "var")]
    for w1 in WRAPS:
        for w2 in WRAPS:
            for rootcfg in (("flat", "plain", "plain"), ("flat", "var", "plain"),
                            ("12", "plain", "var"), ("flat", "req", "plain")):
                tails = [(c,) for c in child_cfgs]
                tails += [tuple(rng.choice(child_cfgs) for _ in range(2)) for _ in range(per)]
                for tail in tails:
                    prog, entry = build_chain((rootcfg, *tail))
                    root = prog["t0"]
                    new = [["as", "v", "V"]]
                    seen_b = 0
                    for it in root:
                        if it[0] == "b":
                            new.append(_wrap(it, (w1, w2)[min(seen_b, 1)]))
                            seen_b += 1
                        else:
                            new.append(it)
                    prog["t0"] = new
                    # a child assigning outside blocks must not be executed
                    prog[entry].insert(1, ["as", "v", "CHILD"])
                    yield prog, entry


def _fam_ctl(r: Runner, spec: dict, ctx: Ctx) -> None:
    rng = random.Random(f"{spec['seed']}:ctl")
    per = 2 if spec["tier"] == "quick" else 60
    last = None
    for idx, (prog, entry) in enumerate(ctl_cases(rng, per)):
        if idx % spec["n"] != spec["i"]:
            continue
        r.case("ctl", prog, entry)
        last = (prog, entry)
    if last:
        ctx.sample({"family": "ctl", "sources": M.emit(last[0]), "entry": last[1],
                    "expected": M.expected(last[0], last[1], DATA).sig()})


DEFECTS = ("dup-fresh-flat", "dup-fresh-nested", "dup-existing", "dup-across-nesting",
           "dup-in-if", "extends2-top", "extends2-in-block", "extends2-other",
           "endblock-mismatch", "endblock-mismatch-nested", "pre-extends-text",
           "pre-extends-block", "extends-in-capture", "extends-in-if", "extends-in-with")


def inject(prog: dict, k: int, defect: str, pfx: str = "t") -> dict | None:
    p = copy.deepcopy(prog)
    name = f"{pfx}{k}"
    items = p[name]
    parent = (M.extends_of(items) or [None])[0]
    existing = [b[1] for b in M.block_defs(items)]
    if defect == "dup-fresh-flat":
        items += [["b", "z", False, [["t", "z1"]], None], ["b", "z", False, [["t", "z2"]], None]]
    elif defect == "dup-fresh-nested":
        items.append(["b", "z", False, [["t", "zo"], ["b", "z", False, [["t", "zi"]], None]], None])
    elif defect == "dup-existing":
        if not existing:
            return None
        items.append(["b", existing[0], False, [["t", "dup"]], None])
    elif defect == "dup-across-nesting":
        if not existing:
            return None
        items.append(["b", "y", False, [["b", existing[-1], False, [["t", "dn"]], None]], None])
    elif defect == "dup-in-if":
        items += [["if", "yes", [["b", "z", False, [["t", "z1"]], None]]],
                  ["if", "no", [["b", "z", False, [["t", "z2"]], None]]]]
    elif defect == "extends2-top":
        if parent is None:
            return None
        items.append(["x", parent])
    elif defect == "extends2-in-block":
        if parent is None:
            return None
        items.append(["b", "z", False, [["x", parent]], None])
    elif defect == "extends2-other":
        if parent is None or k < 2:
            return None
        items.insert(1, ["x", f"{pfx}0"])
    elif defect == "endblock-mismatch":
        items.append(["b", "z", False, [["t", "zz"]], "zz"])
    elif defect == "endblock-mismatch-nested":
        bs = M.block_defs(items)
        if not bs:
            return None
        bs[-1][4] = "nope"
    elif defect == "pre-extends-text":
        if parent is None:
            return None
        items.insert(0, ["t", f"^{k}^"])
    elif defect == "pre-extends-block":
        # a block written before the extends tag is still just one of the template's
        # block definitions; it must not be rendered on its own first
        if parent is None:
            return None
        name = next((n for n in ("a", "b") if n not in existing), "pz")
        items.insert(0, ["b", name, False, [["t", f"^{k}{name}^"]], None])
    elif defect.startswith("extends-in-"):
        # the template's only extends sits inside a container: it is still the link to
        # the parent, the page is still the root's text
        if parent is None:
            return None
        i = next(j for j, it in enumerate(items) if it[0] == "x")
        x = items[i]
        items[i] = {"extends-in-capture": ["cap", "zc", [x]],
                    "extends-in-if": ["if", "yes", [x]],
                    "extends-in-with": ["with", "q", "d", [x]]}[defect]
    return p


def struct_cases(tier: str) -> Iterator[tuple[dict, str, str]]:
    carriers = REDUCED if tier != "quick" else REDUCED[:6]
    for d in (1, 2, 3):
        for cfgs in itertools.product(carriers, repeat=d):
            prog, entry = build_chain(cfgs)
            for k in range(d):
                for defect in DEFECTS:
                    p = inject(prog, k, defect)
                    if p is not None:
                        yield p, entry, defect


def _fam_struct(r: Runner, spec: dict, ctx: Ctx) -> None:
    last = None
    for idx, (prog, entry, defect) in enumerate(struct_cases(spec["tier"])):
        if idx % spec["n"] != spec["i"]:
            continue
        r.case("struct", prog, entry)
        ctx.seen("defects_injected", defect)
        last = (prog, entry, defect)
    if last:
        ctx.sample({"family": "struct", "defect": last[2], "sources": M.emit(last[0]),
                    "entry": last[1], "expected": M.expected(last[0], last[1], DATA).sig()})


def cyc_cases() -> Iterator[tuple[dict, str]]:
    """Every extends graph on N <= 4 templates (each extends nothing or any template,
    itself included), entered from every template."""
    for n in (1, 2, 3, 4):
        names = [f"g{j}" for j in range(n)]
        for parents in itertools.product([None, *names], repeat=n):
            prog: dict[str, list] = {}
            for j, name in enumerate(names):
                form = ("plain", "super")[j % 2]
                items: list = []
                if parents[j] is not None:
                    items.append(["x", parents[j]])
                    items.append(["t", f"~{j}~"])
                else:
                    items.append(["t", f"R{j}("])
                items.append(blk(f"g{j}", "a", form))
                if parents[j] is None:
                    items.append(["t", ")"])
                prog[name] = items
            for entry in names:
                yield prog, entry


def _fam_cyc(r: Runner, spec: dict, ctx: Ctx) -> None:
    last = None
    for idx, (prog, entry) in enumerate(cyc_cases()):
        if idx % spec["n"] != spec["i"]:
            continue
        p = _prune(prog, entry)
        r.case("cyc", p, entry)
        ctx.count("cyc_graphs")
        if M.chain_of(p, entry) is None:
            ctx.count("cyclic_entries")
            last = (p, entry)
    # cycles reached through include / render, from plain text and from inside a block
    if spec["i"] == 0:
        cyc2 = {"c0": [["x", "c1"], ["b", "a", False, [["t", "c0a"]], None]],
                "c1": [["x", "c0"], ["b", "a", False, [["t", "c1a"]], None]]}
        selfx = {"c0": [["x", "c0"], ["b", "a", False, [["t", "c0a"]], None]]}
        for cyc in (cyc2, selfx):
            for kind in ("include", "render"):
                inc = ["inc", kind, "c0", {}]
                r.case("cyc", {**copy.deepcopy(cyc), "m": [["t", "x"], inc, ["t", "y"]]}, "m")
                outer, oentry = build_chain((("flat", "plain", "plain"), ("flat", "plain", "plain")), pfx="o")
                outer[oentry][2][3].insert(1, inc)
                r.case("cyc", {**copy.deepcopy(cyc), **outer}, oentry)
                ctx.count("cyclic_entries", 2)
    if last:
        ctx.sample({"family": "cyc", "sources": M.emit(last[0]), "entry": last[1],
                    "expected": M.expected(last[0], last[1], DATA).sig()})


ENTRY_SHAPES = ("plain", "plain-twice", "plain-for", "root-text", "root-block",
                "inside-block", "inside-block-for", "inside-super-body", "mid-block",
                "inside-block-if")


def entry_case(shape_name: str, kind: str, inner: dict, inner_entry: str) -> tuple[dict, str]:
    kwargs = {"k": "i"} if "for" in shape_name else {}
    inc = ["inc", kind, inner_entry, kwargs]
    prog = copy.deepcopy(inner)
    if shape_name.startswith("plain"):
        if shape_name == "plain":
            items = [["t", "x("], inc, ["t", ")y"]]
        elif shape_name == "plain-twice":
            items = [["t", "x("], inc, ["t", ")y("], copy.deepcopy(inc), ["t", ")z"]]
        else:
            items = [["as", "v", "V"], ["t", "x"],
                     ["for", "i", 3, [["t", "("], inc, ["t", ")"]]], ["t", "y"]]
        prog["m"] = items
        return prog, "m"
    # outer chain o0 <- o1 (<- o2) over names a, b
    A = lambda tid, form="plain", inner_items=None: blk(tid, "a", form, inner=inner_items)  # noqa: E731
    B = lambda tid, form="plain": blk(tid, "b", form)  # noqa: E731
    o0 = [["as", "v", "V"], ["t", "R("], A("o0"), ["t", "|"], B("o0"), ["t", ")R"]]
    o1 = [["x", "o0"], ["t", "~o1~"], A("o1"), ["t", "~o1~"], B("o1"), ["t", "~o1~"]]
    entry = "o1"
    if shape_name == "root-text":
        o0 = [["t", "R("], A("o0"), ["t", "|"], inc, ["t", "|"], B("o0"), ["t", ")R"]]
    elif shape_name == "root-block":
        o0 = [["t", "R("], A("o0", inner_items=[inc]), ["t", "|"], B("o0"), ["t", ")R"]]
        o1 = [["x", "o0"], ["t", "~o1~"], B("o1"), ["t", "~o1~"]]
    elif shape_name == "inside-block":
        o1[2] = A("o1", inner_items=[inc])
    elif shape_name == "inside-block-for":
        o1[2] = A("o1", inner_items=[["for", "i", 2, [["t", "("], inc, ["t", ")"]]]])
    elif shape_name == "inside-block-if":
        o1[2] = A("o1", inner_items=[["if", "yes", [inc]], ["if", "no", [copy.deepcopy(inc)]]])
    elif shape_name == "inside-super-body":
        o0 = [["t", "R("], A("o0", inner_items=[inc]), ["t", "|"], B("o0"), ["t", ")R"]]
        o1[2] = A("o1", form="super")
    elif shape_name == "mid-block":
        o1[2] = A("o1", inner_items=[inc])
        o1[4] = B("o1", form="super")
        prog["o2"] = [["x", "o1"], ["t", "~o2~"], B("o2", form="super"), ["t", "~o2~"]]
        entry = "o2"
    prog["o0"] = o0
    prog["o1"] = o1
    return prog, entry


AFTER_SHAPES = ("then-base", "then-bare", "then-mid", "then-other-chain", "other-chain-then",
                "bare-chain-bare", "for-names", "for-names-bare", "block-then-base")


def after_case(shape_name: str, kind: str, inner: dict, ientry: str,
               names: tuple[str, str]) -> tuple[dict, str, dict]:
    """A PLAIN page (no extends) enters a chain through include/render and then keeps
    rendering in the same context: the chain's base on its own, a bare block of the same
    name, a different chain with the same block names.  Every entry resolves on its own;
    once a chain has finished nothing of it may survive."""
    prog = copy.deepcopy(inner)
    other, oentry = build_chain((("flat", "plain", "super"), ("flat", "super", "plain")),
                                names=names, pfx="q")
    prog.update(other)
    chain = M.chain_of(inner, ientry) or [ientry]
    mid = chain[len(chain) // 2]
    inc = lambda t: ["inc", kind, t, {}]  # noqa: E731
    bare = lambda tag: [["b", n, False, [["t", f"<{tag}{n}>"]], None] for n in names]  # noqa: E731
    data = dict(DATA)
    T = lambda s_: ["t", s_]  # noqa: E731
    if shape_name == "then-base":
        items = [T("("), inc(ientry), T(")("), inc(chain[-1]), T(")")]
    elif shape_name == "then-bare":
        items = [T("("), inc(ientry), T(")("), *bare("m"), T(")")]
    elif shape_name == "then-mid":
        items = [T("("), inc(ientry), T(")("), inc(mid), T(")("), inc(chain[-1]), T(")")]
    elif shape_name == "then-other-chain":
        items = [T("("), inc(ientry), T(")("), inc(oentry), T(")("), inc("q0"), T(")")]
    elif shape_name == "other-chain-then":
        items = [T("("), inc(oentry), T(")("), inc(ientry), T(")("), inc(chain[-1]), T(")")]
    elif shape_name == "bare-chain-bare":
        b1, b2 = bare("m")
        items = [b1, T("("), inc(ientry), T(")"), b2]
    elif shape_name == "block-then-base":
        # the chain is entered from inside a bare block of the page
        items = [["b", "z", False, [T("<z:"), inc(ientry), T(">")], None], T("("),
                 inc(chain[-1]), T(")"), *bare("m")]
    else:
        data["names"] = [ientry, chain[-1], mid, chain[-1], oentry, "q0", ientry]
        items = [["forin", "t", "names", [T("("), ["inc", "include", "@t", {}], T(")")]]]
        if shape_name == "for-names-bare":
            items += bare("m")
    prog["m"] = items
    return prog, "m", data


def entry_cases(rng: random.Random, tier: str) -> Iterator[tuple[dict, str, dict | None]]:
    inner_cfgs: list[tuple] = [(c,) for c in CONFIGS]
    nsamp = 60 if tier == "quick" else 900
    for _ in range(nsamp):
        d = rng.choice((2, 2, 3))
        inner_cfgs.append(tuple(rng.choice(CONFIGS) for _ in range(d)))
    # bodies of the inner chain read variables so that scope sharing is exercised
    for cfgs in inner_cfgs:
        for names in (("a", "b"), ("c", "e")):
            inner, ientry = build_chain(cfgs, names=names, pfx="n")
            inner["n0"].append(["v", "d"])
            inner["n0"].append(["v", "k"])
            for sh in ENTRY_SHAPES:
                for kind in ("include", "render"):
                    yield (*entry_case(sh, kind, inner, ientry), None)
            for sh in AFTER_SHAPES:
                for kind in ("include", "render"):
                    if kind == "render" and (sh.startswith("for-names") or names != ("a", "b")):
                        continue
                    yield after_case(sh, kind, inner, ientry, names)


def _fam_entry(r: Runner, spec: dict, ctx: Ctx) -> None:
    rng = random.Random(f"{spec['seed']}:entry")
    last = None
    for idx, (prog, entry, data) in enumerate(entry_cases(rng, spec["tier"])):
        if idx % spec["n"] != spec["i"]:
            continue
        r.case("entry", prog, entry, data)
        if prog.get("m") and "q0" in prog:
            ctx.count("cases_entry_after_chain")
        last = (prog, entry)
        if idx % 256 == spec["i"]:
            ctx.check_deadline()
    if last:
        ctx.sample({"family": "entry", "sources": M.emit(last[0]), "entry": last[1],
                    "expected": M.expected(last[0], last[1], DATA).sig()})


SAMP_FORMS = ("plain", "plain", "super", "super", "super2", "req", "var", "supervar")


def samp_case(rng: random.Random, max_depth: int = 4, names: tuple = ("a", "b", "c")) -> tuple[dict, str]:
    # mostly depth <= 4 (the property's bound), some larger chains beyond it
    d = rng.choice((2, 3, 3, 4, 4, 4, 4, 5, 6, 8)) if max_depth >= 4 else rng.randint(2, max_depth)
    prog: dict[str, list] = {}
    for k in range(d):
        root = k == 0
        tid = str(k)
        p_def = 0.85 if root else 0.6
        chosen = [n for n in names if rng.random() < p_def]
        rng.shuffle(chosen)
        placed: list[list] = []  # block items, any level
        top: list = []
        for n in chosen:
            form = rng.choice(SAMP_FORMS)
            b = blk(tid, n, form, named=rng.random() < 0.3)
            if rng.random() < 0.25:  # a loop inside the body reading its own variable
                b[3].insert(1, ["for", "j", 2, [["v", "j"]]])
            if placed and rng.random() < 0.4:
                host = rng.choice(placed)
                pos = rng.randint(1, len(host[3]) - 1)
                inner: list = b
                r = rng.random()
                if r < 0.15:
                    inner = ["if", rng.choice(("yes", "no")), [b]]
                elif r < 0.3:
                    inner = ["for", "j", rng.choice((0, 1, 2)), [b]]
                host[3].insert(pos, inner)
            else:
                top.append(b)
            placed.append(b)
        items: list = []
        if root:
            items.append(["as", "v", "V"])
            items.append(["t", "R("])
            for b in top:
                items.append(_wrap(b, rng.choice(WRAPS + ("none",) * 5)))
                items.append(["t", "|"])
            items.append(["t", ")R"])
        else:
            items.append(["x", f"t{k - 1}"])
            for j, b in enumerate(top):
                items.append(["t", f"~{tid}.{j}~"])
                if rng.random() < 0.1:
                    items.append(["as", "v", "CHILD"])
                if rng.random() < 0.1:
                    items.append(["v", "d"])
                items.append(b)
            items.append(["t", f"~{tid}.e~"])
        prog[f"t{k}"] = items
    return prog, f"t{d - 1}"


def _fam_samp(r: Runner, spec: dict, ctx: Ctx) -> None:
    rng = random.Random(f"{spec['seed']}:samp:{spec['i']}")
    last = None
    for j in range(spec["count"]):
        prog, entry = samp_case(rng)
        r.case("samp", prog, entry)
        last = (prog, entry)
        if j % 256 == 0:
            ctx.check_deadline()
    if last:
        ctx.sample({"family": "samp", "sources": M.emit(last[0]), "entry": last[1],
                    "expected": M.expected(last[0], last[1], DATA).sig()})


def _swap(cfg: tuple[str, str, str]) -> tuple[str, str, str]:
    lay, f1, f2 = cfg
    return ({"flat": "flat", "12": "21", "21": "12"}[lay], f2, f1)


def exh4_cases() -> Iterator[tuple]:
    """thorough only: ALL depth-4 chains over the 34 configurations, one representative
    per a<->b renaming class (the renaming also swaps the order of the two top-level
    blocks in the text)."""
    for cfgs in itertools.product(CONFIGS, repeat=4):
        if cfgs <= tuple(_swap(c) for c in cfgs):
            yield cfgs


N_EXH4 = (len(CONFIGS) ** 4 + 4 ** 4) // 2  # Burnside: 4 self-symmetric configurations


def _fam_exh4(r: Runner, spec: dict, ctx: Ctx) -> None:
    for idx, cfgs in enumerate(exh4_cases()):
        if idx % spec["n"] != spec["i"]:
            continue
        prog, entry = build_chain(cfgs)
        r.case("exh4", prog, entry)
        ctx.count("exh4_chains")
        if idx % 512 == spec["i"]:
            ctx.check_deadline()


# ---------------------------------------------------------------------------
# blank bodies: a block as the sole non-blank content of an enclosing body
# ---------------------------------------------------------------------------

BLANK_BODIES = {
    "empty": [],
    "ws": [["t", " \n "]],
    "comment": [["c", "note"]],
    "assign": [["as", "w", "W"]],
    "mixed": [["t", "\n  "], ["c", "note"], ["as", "w", "W"], ["t", "\n"]],
    "text": [["t", "<x0>"]],  # control: not blank
}
ENCLOSURES = ("none", "block", "if", "unless", "for", "case", "with", "block>if", "if>for",
              "if-padded", "for-padded")
PLACEMENTS = ("root-top", "root-outer-block", "root-outer-block-via-super", "mid-override",
              "leaf-override")
OVERRIDES = ("none", "text", "ws-only", "empty", "super+text", "mid-text")


def _enclose(item: list, kind: str) -> list:
    """item wrapped so that it is the only non-blank content of the wrapper's body."""
    pad = lambda xs: [["t", "\n  "], *xs, ["t", "\n"]]  # noqa: E731
    if kind == "none":
        return [item]
    if kind == "block":
        return [["b", "w", False, [item], None]]
    if kind == "if":
        return [["if", "yes", [item]]]
    if kind == "if-padded":
        return [["if", "yes", pad([["as", "w", "W"], item])]]
    if kind == "unless":
        return [["unless", "no", None, [item]]]
    if kind == "for":
        return [["for", "i", 2, [item]]]
    if kind == "for-padded":
        return [["for", "i", 2, pad([item, ["c", "c"]])]]
    if kind == "case":
        return [["case", "d", "D", [item]]]
    if kind == "with":
        return [["with", "q", "d", [item]]]
    if kind == "block>if":
        return [["b", "w", False, [["if", "yes", [item]]], None]]
    return [["if", "yes", [["for", "i", 1, [item]]]]]


def blank_cases() -> Iterator[tuple[dict, str, str]]:
    for body_kind, body in BLANK_BODIES.items():
        for req in (False, True):
            for enc in ENCLOSURES:
                for place in PLACEMENTS:
                    for ov in OVERRIDES:
                        xdef = ["b", "x", req, copy.deepcopy(body), None]
                        core = _enclose(xdef, enc)
                        xov = {
                            "none": None,
                            "text": [["t", "<X2>"]],
                            "mid-text": [["t", "<X2>"]],
                            "ws-only": [["t", "  \n"]],
                            "empty": [],
                            "super+text": [["t", "<X2:"], ["s"], ["t", ">"]],
                        }[ov]
                        t0: list
                        t1: list = [["x", "t0"], ["t", "~1~"]]
                        t2: list = [["x", "t1"], ["t", "~2~"]]
                        if place == "root-top":
                            t0 = [["t", "R("], *core, ["t", ")R"]]
                        elif place in ("root-outer-block", "root-outer-block-via-super"):
                            t0 = [["t", "R("], ["b", "o", False, core, None], ["t", ")R"]]
                            if place.endswith("super"):
                                t2.append(["b", "o", False, [["t", "<O2:"], ["s"], ["t", ">"]], None])
                        elif place == "mid-override":
                            t0 = [["t", "R("], ["b", "o", False, [["t", "<o0>"]], None], ["t", ")R"]]
                            t1.append(["b", "o", False, core, None])
                        else:
                            t0 = [["t", "R("], ["b", "o", False, [["t", "<o0>"]], None], ["t", ")R"]]
                            t2.append(["b", "o", False, core, None])
                            if ov != "none":
                                continue  # x is defined in the leaf itself
                        if xov is not None:
                            if ov == "mid-text":
                                if place == "mid-override":
                                    continue  # would duplicate x in t1
                                t1.append(["b", "x", False, xov, None])
                            else:
                                t2.append(["b", "x", False, xov, None])
                        yield ({"t0": t0, "t1": t1, "t2": t2}, "t2",
                               f"{body_kind}/{'req' if req else 'opt'}/{enc}/{place}/{ov}")


def _fam_blank(r: Runner, spec: dict, ctx: Ctx) -> None:
    last = None
    for idx, (prog, entry, label) in enumerate(blank_cases()):
        if idx % spec["n"] != spec["i"]:
            continue
        r.case("blank", prog, entry)
        parts = label.split("/")
        if parts[0] != "text" and parts[2] != "none" and parts[4] in ("text", "super+text", "mid-text"):
            ctx.count("blank_sole_content_overridden")
        ctx.seen("blank_enclosures", parts[2])
        ctx.seen("blank_body_kinds", parts[0])
        last = (prog, entry, label)
    if last:
        ctx.sample({"family": "blank", "label": last[2], "sources": M.emit(last[0]), "entry": last[1],
                    "expected": M.expected(last[0], last[1], DATA).sig()})


# ---------------------------------------------------------------------------
# blocks / extends inside container tags whose node is "blank" or otherwise special
# ---------------------------------------------------------------------------

CONTAINERS = ("cap0", "cap1", "cap2", "cap-nested", "cap-in-if", "cap-in-for", "mac0", "mac1",
              "mac2", "with", "liquid", "comment", "hash-comment", "raw", "cap-in-with",
              "tablerow", "custom-tag", "custom-tag-no-children", "unless", "case", "for",
              "if", "tablerow-in-custom-tag")
CONT_PLACES = ("root-top", "root-outer-block", "mid-override", "leaf-override")
CONT_OVERRIDES = ("none", "leaf-text", "leaf-super", "mid-super+leaf-super")
CONT_HIDDEN = ("none", "dup", "extends2")
INERT = ("comment", "hash-comment", "raw")  # markup inside is not template markup


def _contain(inner: list, kind: str) -> list:
    pr = [["t", "["], ["v", "t"], ["t", "]"]]
    if kind == "cap0":
        return [["cap", "t", inner]]
    if kind == "cap1":
        return [["cap", "t", inner], *pr]
    if kind == "cap2":
        return [["cap", "t", inner], *pr, *copy.deepcopy(pr)]
    if kind == "cap-nested":
        return [["cap", "t", [["cap", "u", inner], ["t", "("], ["v", "u"], ["t", ")"]]], *pr]
    if kind == "cap-in-if":
        return [["if", "yes", [["cap", "t", inner], *pr]]]
    if kind == "cap-in-for":
        return [["for", "i", 2, [["cap", "t", inner], *pr]]]
    if kind == "cap-in-with":
        return [["with", "q", "d", [["cap", "t", inner], *pr]]]
    if kind.startswith("mac"):
        return [["mac", "m", inner], *[["call", "m"] for _ in range(int(kind[3]))]]
    if kind == "with":
        return [["with", "q", "d", inner]]
    if kind == "tablerow":
        return [["trow", "i", 2, inner]]
    if kind == "custom-tag":
        return [["box", None, None, inner]]
    if kind == "custom-tag-no-children":
        return [["boxnc", None, None, inner]]
    if kind == "tablerow-in-custom-tag":
        return [["box", None, None, [["trow", "i", 1, inner]]]]
    if kind == "unless":
        return [["unless", "no", None, inner]]
    if kind == "case":
        return [["case", "d", "D", inner]]
    if kind == "for":
        return [["for", "i", 2, inner]]
    if kind == "if":
        return [["if", "yes", inner]]
    if kind == "liquid":
        return [[*it, "liquid"] if it[0] == "b" else it for it in inner]
    if kind == "comment":
        return [["com", inner]]
    if kind == "hash-comment":
        return [["hcom", inner]]
    return [["raw", inner]]


def cont_cases() -> Iterator[tuple[dict, str, str]]:
    for ck in CONTAINERS:
        for place in CONT_PLACES:
            for ov in CONT_OVERRIDES:
                for hid in CONT_HIDDEN:
                    tagx = "x0" if place.startswith("root") else ("x1" if place.startswith("mid") else "x2")
                    xdef = ["b", "x", False, [["t", f"<{tagx}>"]], None]
                    inner: list = [xdef]
                    if hid == "extends2":
                        if place.startswith("root") or ck == "liquid":
                            continue
                        inner = [["x", "t0"], xdef] if ck not in INERT else [["x", "nowhere"], xdef]
                    cont = _contain(inner, ck)
                    if hid == "dup":
                        cont = [*cont, ["b", "x", False, [["t", "<dup>"]], None]]
                    t1: list = [["x", "t0"], ["t", "~1~"]]
                    t2: list = [["x", "t1"], ["t", "~2~"]]
                    if place == "root-top":
                        t0 = [["t", "R("], *cont, ["t", ")R"]]
                    elif place == "root-outer-block":
                        t0 = [["t", "R("], ["b", "o", False, cont, None], ["t", ")R"]]
                    else:
                        t0 = [["t", "R("], ["b", "o", False, [["t", "<o0>"]], None], ["t", ")R"]]
                        (t1 if place == "mid-override" else t2).append(["b", "o", False, cont, None])
                    if place == "leaf-override" and ov != "none":
                        continue
                    if place == "mid-override" and ov == "mid-super+leaf-super":
                        continue
                    if hid == "dup" and ov != "none" and place == "mid-override":
                        pass
                    if ov == "leaf-text":
                        t2.append(["b", "x", False, [["t", "<X2>"]], None])
                    elif ov == "leaf-super":
                        t2.append(["b", "x", False, [["t", "<X2:"], ["s"], ["t", ">"]], None])
                    elif ov == "mid-super+leaf-super":
                        t1.append(["b", "x", False, [["t", "<X1:"], ["s"], ["t", ">"]], None])
                        t2.append(["b", "x", False, [["t", "<X2:"], ["s"], ["t", ">"]], None])
                    yield {"t0": t0, "t1": t1, "t2": t2}, "t2", f"{ck}/{place}/{ov}/{hid}"


def _fam_cont(r: Runner, spec: dict, ctx: Ctx) -> None:
    last = None
    for idx, (prog, entry, label) in enumerate(cont_cases()):
        if idx % spec["n"] != spec["i"]:
            continue
        r.case("cont", prog, entry)
        parts = label.split("/")
        ctx.seen("containers", parts[0])
        if parts[3] != "none":
            ctx.count("cont_hidden_defects")
        if parts[2].endswith("super") and parts[0] not in INERT:
            ctx.count("cont_super_through_container")
        last = (prog, entry, label)
    if last:
        ctx.sample({"family": "cont", "label": last[2], "sources": M.emit(last[0]), "entry": last[1],
                    "expected": M.expected(last[0], last[1], DATA).sig()})


# ---------------------------------------------------------------------------
# relation: a root rendered directly == rendered through descendants that change nothing
# ---------------------------------------------------------------------------

REL_BODY = [
    "{% cycle 'x','y' %}", "{% cycle 'x','y' %}", "{% cycle g: 'p','q','r' %}",
    "{% increment n %}", "{% increment n %}", "{% decrement k %}",
    "{% call m %}", "{% call m %}", "{% macro mi %}<mi{{ d }}>{% endmacro %}{% call mi %}",
    "{% for j in (1..6) limit: 2 offset: continue %}{{ j }}{% endfor %}",
    "{% capture c %}c{{ d }}{% increment n %}{% endcapture %}{{ c }}{{ c }}",
    "{% assign w = 'W' %}{{ w }}", "{{ v }}", "{{ i }}", "{{ forloop.index }}",
    "{% liquid\nassign z = 3\necho z\n%}", "{% case d %}{% when 'D' %}y{% else %}n{% endcase %}",
    "{% with q: d %}{{ q }}{% endwith %}", "t", "{{ n }}",
    "{% for j in (1..2) %}{{ j }}{% cycle 'a','b','c' %}{% endfor %}",
]
REL_BODY_LOOP = ["{% if i == 2 %}{% continue %}{% endif %}", "{% if i == 3 %}{% break %}{% endif %}",
                 "{{ forloop.first }}", "{% for j in (1..2) %}{{ forloop.parentloop.index }}{% endfor %}"]
REL_OUT = [
    "{% cycle 'x','y' %}", "{% cycle g: 'p','q','r' %}", "{% increment n %}", "{% decrement k %}",
    "{% call m %}", "{% call mi %}", "{% for j in (1..6) limit: 2 offset: continue %}{{ j }}{% endfor %}",
    "|", "{{ n }}", "{% for j in (1..6) limit: 1 %}{{ j }}{% endfor %}",
]
REL_FEATURES = ("parentloop", "cycle", "increment", "decrement", "call", "offset: continue",
                "capture", "assign", "forloop", "{% continue", "{% break", "liquid")


def rel_root(rng: random.Random) -> dict:
    names = iter("abcefghklmopq")
    elems: list[dict] = []
    for _ in range(rng.randint(3, 6)):
        if rng.random() < 0.4:
            elems.append({"k": "f", "s": rng.choice(REL_OUT)})
            continue
        wrap = rng.choice(("none", "none", "for3", "for3", "if", "cap2"))
        pool = REL_BODY + (["{{ forloop.first }}", "{{ forloop.index0 }}"] if wrap == "for3" else [])
        el = {"k": "b", "name": next(names), "wrap": wrap,
              "body": [rng.choice(pool) for _ in range(rng.randint(1, 4))], "inner": None}
        if wrap == "for3" and rng.random() < 0.06:  # rare: loop interrupts / parentloop
            el["body"].insert(rng.randint(0, len(el["body"])), rng.choice(REL_BODY_LOOP))
        if rng.random() < 0.3:
            el["inner"] = {"name": next(names),
                           "body": [rng.choice(pool) for _ in range(rng.randint(1, 3))]}
        elems.append(el)
    return {"pre": ["{% macro m %}<m>{% endmacro %}", "{% assign v = 'V' %}"], "elems": elems}


def rel_source(root: dict) -> str:
    out = list(root["pre"])
    for el in root["elems"]:
        if el["k"] == "f":
            out.append(el["s"])
            continue
        inner = ""
        if el.get("inner"):
            inner = "[{%% block %s %%}%s{%% endblock %%}]" % (el["inner"]["name"], "".join(el["inner"]["body"]))
        b = "{%% block %s %%}%s%s{%% endblock %%}" % (el["name"], "".join(el["body"]), inner)
        n = el["name"]
        if el["wrap"] == "for3":
            b = "{% for i in (1..3) %}" + b + "{% endfor %}"
        elif el["wrap"] == "if":
            b = "{% if yes %}" + b + "{% endif %}"
        elif el["wrap"] == "cap2":
            b = "{%% capture t_%s %%}%s{%% endcapture %%}<{{ t_%s }}|{{ t_%s }}>" % (n, b, n, n)
        out.append(b)
    return "".join(out)


def _rel_knockout(root: dict, feature: str) -> dict:
    """root without any fragment that uses *feature* (a capture wrapper counts)."""
    r2 = copy.deepcopy(root)
    r2["pre"] = [x for x in r2["pre"] if feature not in x]
    elems = []
    for el in r2["elems"]:
        if el["k"] == "f":
            if feature not in el["s"]:
                elems.append(el)
            continue
        el["body"] = [x for x in el["body"] if feature not in x]
        if el.get("inner"):
            el["inner"]["body"] = [x for x in el["inner"]["body"] if feature not in x]
        if feature == "capture" and el["wrap"] == "cap2":
            el["wrap"] = "none"
        elems.append(el)
    r2["elems"] = elems
    return r2


def rel_block_names(root: dict) -> list[str]:
    ns = []
    for el in root["elems"]:
        if el["k"] == "b":
            ns.append(el["name"])
            if el.get("inner"):
                ns.append(el["inner"]["name"])
    return ns


def rel_variants(root: dict) -> dict[str, dict[str, str]]:
    """name -> templates; the entry is always 'leaf'.  p* override nothing, s* override
    blocks with {{ block.super }} only."""
    src = rel_source(root)
    names = rel_block_names(root)
    sup = lambda ns: "".join("{%% block %s %%}{{ block.super }}{%% endblock %%}" % n for n in ns)  # noqa: E731
    return {
        "p1": {"r": src, "leaf": "{% extends 'r' %}"},
        "p2": {"r": src, "c1": "{% extends 'r' %}", "leaf": "{% extends 'c1' %}"},
        "p3": {"r": src, "c1": "{% extends 'r' %}", "c2": "{% extends 'c1' %}~x~",
               "leaf": "{% extends 'c2' %}"},
        "s1": {"r": src, "leaf": "{% extends 'r' %}" + sup(names)},
        "s2": {"r": src, "c1": "{% extends 'r' %}" + sup(names), "leaf": "{% extends 'c1' %}" + sup(names)},
        "s3": {"r": src, "c1": "{% extends 'r' %}", "leaf": "{% extends 'c1' %}~y~" + sup(names)},
        "s4": {"r": src, "c1": "{% extends 'r' %}" + sup(names[1::2]),
               "leaf": "{% extends 'c1' %}" + sup(names[::2])},
    }


def _fam_rel(r: Runner, spec: dict, ctx: Ctx) -> None:
    rng = random.Random(f"{spec['seed']}:rel:{spec['i']}")
    last = None
    for j in range(spec["count"]):
        root = rel_root(rng)
        r.relation(root)
        last = root
        if j % 128 == 0:
            ctx.check_deadline()
    if last:
        ctx.sample({"family": "rel", "root": rel_source(last),
                    "leaf_of_s2": rel_variants(last)["s2"]["leaf"]})


# ---------------------------------------------------------------------------
# break / continue raised in a parent block and crossing block.super
# ---------------------------------------------------------------------------

INTR_MIDS = ("none", "absent", "pass", "wrap-after", "own-interrupt", "twice")
INTR_LEAVES = ("loop", "loop+after", "twice-per-iteration", "nested-loops", "root-loop",
               "loop-then-loop")


def intr_cases() -> Iterator[tuple[dict, str, str]]:
    """The parent block's body STARTS with `{% if x == K %}{% break|continue %}{% endif %}`
    (nothing written before it in any body reached through block.super, which keeps clear
    of the known loss of buffered text); the overriding block loops and calls block.super
    inside the loop, again in later iterations and after the loop."""
    S = ["s"]
    T = lambda s_: ["t", s_]  # noqa: E731
    for kind in ("brk", "cnt"):
        for K in (1, 2, 4):
            for mid in INTR_MIDS:
                for leaf in INTR_LEAVES:
                    row0 = ["b", "row", False,
                            [["ifeq", "x", K, [[kind]]], T("b"), ["v", "x"]], None]
                    t0: list = [T("R("), row0, T(")R")]
                    if leaf == "root-loop":
                        t0 = [T("R("), ["for", "x", 4, [row0, T(";")]], T(")R")]
                    prog: dict[str, list] = {"t0": t0}
                    parent = "t0"
                    if mid != "none":
                        body = {
                            "absent": None,
                            "pass": [S],
                            "wrap-after": [S, T(")m")],
                            "own-interrupt": [["ifeq", "x", 3, [["cnt"]]], S, T(")m")],
                            "twice": [S, T("+"), S],
                        }[mid]
                        t1: list = [["x", "t0"], T("~1~")]
                        if body is not None:
                            t1.append(["b", "row", False, body, None])
                        prog["t1"] = t1
                        parent = "t1"
                    call = [T("["), S, T("]")]
                    lbody = {
                        "loop": [["for", "x", 4, call]],
                        "loop+after": [["for", "x", 4, call], T("|"), S, T("|"), S],
                        "twice-per-iteration": [["for", "x", 4, [T("["), S, T("|"), S, T("]")]]],
                        "nested-loops": [["for", "y", 2, [["for", "x", 3, call], T("/"), S]]],
                        "root-loop": [T("<"), S, T(">")],
                        "loop-then-loop": [["for", "x", 4, call], T("|"), ["for", "x", 2, call]],
                    }[leaf]
                    prog["t2"] = [["x", parent], T("~2~"), ["b", "row", False, lbody, None]]
                    yield prog, "t2", f"{kind}/{K}/{mid}/{leaf}"


def _fam_intr(r: Runner, spec: dict, ctx: Ctx) -> None:
    last = None
    for idx, (prog, entry, label) in enumerate(intr_cases()):
        if idx % spec["n"] != spec["i"]:
            continue
        r.case("intr", prog, entry)
        E = M.expected(prog, entry, DATA)
        ctx.count("intr_supers_after_interrupt", max(0, E.stats["supers"] - 1))
        ctx.seen("intr_shapes", "/".join(label.split("/")[2:]))
        last = (prog, entry, label)
    if last:
        ctx.sample({"family": "intr", "label": last[2], "sources": M.emit(last[0]), "entry": last[1],
                    "expected": M.expected(last[0], last[1], DATA).sig()})


# ---------------------------------------------------------------------------
# reuse: ONE leaf Template object rendered again and again while its ancestors change
# ---------------------------------------------------------------------------

REUSE_MUTATIONS = ("mid-body", "mid-reparent", "mid-becomes-root", "root-body", "restore",
                   "mid-gains-grandparent")


def reuse_cases(rng: random.Random, tier: str) -> Iterator[tuple[dict, list[str]]]:
    n = 6 if tier == "quick" else 40
    for c0 in REDUCED[:6]:
        for c1 in REDUCED[:6]:
            for _ in range(n):
                prog, _entry = build_chain((c0, c1, ("flat", "super", "super")))
                yield prog, [rng.choice(REUSE_MUTATIONS) for _ in range(rng.choice((2, 3, 4)))]


def _reuse_apply(base: dict, cur: dict, mut: str, step: int) -> dict:
    p = copy.deepcopy(cur)
    alt_root = [["t", "ALT("], blk("A", "a", "plain"), ["t", "|"], blk("A", "b", "plain"), ["t", ")ALT"]]
    if mut == "mid-body":
        p["t1"] = [["x", (M.extends_of(p["t1"]) or ["t0"])[0]], ["t", "~m~"],
                   blk(f"M{step}", "a", "super"), blk(f"M{step}", "b", "plain")]
        if not M.extends_of(cur["t1"]):
            p["t1"] = p["t1"][1:]
    elif mut == "mid-reparent":
        p["alt"] = alt_root
        p["t1"] = [["x", "alt"], *[it for it in p["t1"] if it[0] != "x"]]
    elif mut == "mid-becomes-root":
        p["t1"] = [it for it in p["t1"] if it[0] != "x"]
    elif mut == "root-body":
        p["t0"] = [["t", f"R{step}("], blk(f"Z{step}", "a", "plain"), ["t", "|"],
                   blk(f"Z{step}", "b", "plain"), ["t", ")"]]
    elif mut == "mid-gains-grandparent":
        p["alt"] = alt_root
        p["t0"] = [["x", "alt"], ["t", "~g~"], *[it for it in p["t0"] if it[0] != "x"]]
    else:
        p = copy.deepcopy(base)
    return p


def _fam_reuse(r: Runner, spec: dict, ctx: Ctx) -> None:
    rng = random.Random(f"{spec['seed']}:reuse")
    last = None
    for idx, (prog, muts) in enumerate(reuse_cases(rng, spec["tier"])):
        if idx % spec["n"] != spec["i"]:
            continue
        r.reuse(prog, muts, theme=False)
        last = (prog, muts)
    # a context-aware loader that picks the parent by render data
    for c in REDUCED[:6]:
        for seq in (("light", "dark", "light"), ("dark", "dark", "light", "dark")):
            r.reuse_theme(c, list(seq))
    if last:
        ctx.sample({"family": "reuse", "mutations": last[1], "sources": M.emit(last[0])})


# ---------------------------------------------------------------------------
# histories: several renders of DIFFERENT entries on ONE environment
# ---------------------------------------------------------------------------

HIST_LEAF = [("flat", "plain", "omit"), ("flat", "omit", "plain"), ("flat", "super", "super"),
             ("flat", "omit", "omit"), ("12", "plain", "plain"), ("flat", "req", "plain")]
HIST_C0 = [("flat", "req", "plain"), ("flat", "plain", "req"), ("flat", "req", "req"),
           ("12", "plain", "req"), ("21", "req", "plain"), ("flat", "plain", "plain")]
HIST_C1 = [("flat", "omit", "omit"), ("flat", "plain", "omit"), ("flat", "req", "omit"),
           ("12", "plain", "req"), ("flat", "super", "req"), ("flat", "omit", "plain")]


def hist_universe(c0: tuple, c1: tuple) -> tuple[dict, list[str]]:
    """h0 (root) <- h1 (mid); six leaf configurations under each of them.  Every template
    is an entry (the parents are also rendered directly)."""
    names = ("a", "b")
    prog = {"h0": tpl_items(0, c0, names, None, pfx="h"),
            "h1": tpl_items(1, c1, names, "h0", pfx="h")}
    k = 2
    for parent in ("h0", "h1"):
        for lc in HIST_LEAF:
            prog[f"h{k}"] = tpl_items(k, lc, names, parent, pfx="h")
            k += 1
    return prog, list(prog)


def hist_cases(rng: random.Random, tier: str) -> Iterator[tuple[dict, list[str]]]:
    """ALL ordered pairs of entries of each universe (the same entry twice included),
    plus seeded triples / quadruples."""
    q = tier == "quick"
    c0s = HIST_C0 if q else CONFIGS
    c1s = HIST_C1 if q else CONFIGS[::2]
    for c0 in c0s:
        for c1 in c1s:
            prog, entries = hist_universe(c0, c1)
            for e1 in entries:
                for e2 in entries:
                    yield prog, [e1, e2]
            for _ in range(40 if q else 24):
                yield prog, [rng.choice(entries) for _ in range(rng.choice((3, 3, 4)))]
            # the same universe under path-like names sharing base names (a quarter of
            # the pairs): a chain is identified by full names
            mp = pathmap(prog, len(c0[1]) + len(c1[2]))
            progp = M.rename(prog, "h0", {}, mp)[0]
            ents = [mp[e] for e in entries]
            for i, e1 in enumerate(ents):
                for j, e2 in enumerate(ents):
                    if (i * len(ents) + j) % 4 == 0:
                        yield progp, [e1, e2]


HIST_MODES = ("ss", "sa", "as", "aa")


def _fam_hist(r: Runner, spec: dict, ctx: Ctx) -> None:
    rng = random.Random(f"{spec['seed']}:hist")
    last = None
    for idx, (prog, hist) in enumerate(hist_cases(rng, spec["tier"])):
        if idx % spec["n"] != spec["i"]:
            continue
        pat = HIST_MODES[(idx // spec["n"]) % 4]
        steps = [[e, "async" if pat[j % 2] == "a" else "sync"] for j, e in enumerate(hist)]
        r.history(prog, steps, DATA)
        if "x" in prog:
            ctx.count("path_named_histories")
        last = (prog, steps)
        if idx % 512 == spec["i"]:
            ctx.check_deadline()
    if last:
        ctx.sample({"family": "hist", "steps": last[1],
                    "sources": {n: s_ for n, s_ in M.emit(last[0]).items()
                                if any(n in (M.chain_of(last[0], e) or []) for e, _ in last[1])}})


FAMILIES = {"exh": _fam_exh, "ctl": _fam_ctl, "struct": _fam_struct, "cyc": _fam_cyc,
            "entry": _fam_entry, "samp": _fam_samp, "exh4": _fam_exh4, "hist": _fam_hist, "blank": _fam_blank,
            "cont": _fam_cont, "rel": _fam_rel,
            "intr": _fam_intr, "reuse": _fam_reuse}

# ---------------------------------------------------------------------------
# framework interface
# ---------------------------------------------------------------------------


def shards(tier: str, seed: int) -> list[dict[str, Any]]:  # noqa: ARG001
    specs: list[dict[str, Any]] = []
    q = tier == "quick"
    n = 10 if q else 16
    for i in range(n):
        specs.append({"kind": "exh", "i": i, "n": n})
    n = 1 if q else 12
    for i in range(n):
        specs.append({"kind": "samp", "i": i, "n": n, "count": 1600 if q else 20000})
    n = 2 if q else 8
    for i in range(n):
        specs.append({"kind": "entry", "i": i, "n": n})
    n = 3 if q else 6
    for i in range(n):
        specs.append({"kind": "ctl", "i": i, "n": n})
    n = 3 if q else 4
    for i in range(n):
        specs.append({"kind": "struct", "i": i, "n": n})
    specs.append({"kind": "cyc", "i": 0, "n": 1})
    n = 2 if q else 16
    for i in range(n):
        specs.append({"kind": "hist", "i": i, "n": n})
    for i in range(2):
        specs.append({"kind": "blank", "i": i, "n": 2})
    specs.append({"kind": "cont", "i": 0, "n": 1})
    specs.append({"kind": "intr", "i": 0, "n": 1})
    specs.append({"kind": "reuse", "i": 0, "n": 1})
    n = 2 if q else 8
    for i in range(n):
        specs.append({"kind": "rel", "i": i, "n": n, "count": 350 if q else 4000})
    if not q:
        for i in range(32):
            specs.append({"kind": "exh4", "i": i, "n": 32})
    return specs


def floors(tier: str) -> dict[str, int]:
    q = tier == "quick"
    return {
        "exh_chains": N_EXH,
        **({} if q else {"exh4_chains": N_EXH4}),
        "comparisons": 50_000 if q else 500_000,
        "evaluations": 200_000 if q else 2_000_000,
        "supers_checked": 1_000 if q else 20_000,
        "error_cases": 500 if q else 10_000,
        "cyclic_entries": 1_000,
        "nested_block_resolutions": 5_000,
        "cases_entry": 2_000 if q else 20_000,
        "cases_struct": 1_000,
        "cases_entry_after_chain": 800 if q else 8_000,
        "histories": 7_000 if q else 120_000,
        "cases_blank": 2_000,
        "cases_cont": 600,
        "cont_hidden_defects": 350,
        "cont_super_through_container": 200,
        "cases_intr": 140,
        "reuse_renders": 600,
        "reuse_theme_renders": 30,
        "intr_supers_after_interrupt": 300,
        "set:containers": 23,
        "rel_roots": 600 if q else 25_000,
        "rel_comparisons": 12_000 if q else 500_000,
        "rel_roots_block_in_loop": 150,
        "set:rel_features": 11,
        "blank_sole_content_overridden": 800,
        "set:blank_enclosures": 11,
        "set:blank_body_kinds": 6,
        "nosuppress_cases": 3_000,
        "spelling_cases": 6_000 if q else 80_000,
        "name_bound_cases": 6_000 if q else 80_000,
        "bare_extends_cases": 3_000 if q else 40_000,
        "spelling_cases_with_required": 2_000 if q else 20_000,
        "spelling_cases_quoted_name": 4_000 if q else 50_000,
        "path_named_chains": 3_000 if q else 50_000,
        "path_named_cyclic": 500,
        "path_named_histories": 1_000 if q else 20_000,
        "auto_escape_cases": 8_000 if q else 100_000,
        "auto_escape_supers_checked": 3_000 if q else 50_000,
        "histories_mixing_required_error_and_output": 1_000 if q else 20_000,
        "set:expected_error_kinds": 5,
        "distinct_nontrivial": 20_000 if q else 200_000,
    }


def exhaustive(tier: str, merged: dict[str, Any]) -> bool:  # noqa: ARG001
    """True iff every chain of the depth<=3 / 2-name family (34 configurations per
    template, no pruning: 34 + 34^2 + 34^3 = 40494) was executed and compared and no
    shard was cut short; in the thorough tier additionally every depth-4 chain up to
    the a<->b renaming symmetry (668296 representatives of 34^4)."""
    ok = (
        merged["counters"].get("exh_chains", 0) == N_EXH
        and not merged["failed"]
        and not merged["truncated"]
    )
    if tier != "quick":
        ok = ok and merged["counters"].get("exh4_chains", 0) == N_EXH4
    return ok


def run_shard(spec: dict[str, Any], ctx: Ctx) -> None:
    import time

    r = Runner(ctx)
    t0 = time.process_time()
    try:
        FAMILIES[spec["kind"]](r, spec, ctx)
    finally:
        r.close()
        ctx.mx("max:shard_cpu_s", int(time.process_time() - t0))
        ctx.mx(f"max:shard_cpu_s_{spec['kind']}", int(time.process_time() - t0))


def replay(wit: dict[str, Any], ctx: Ctx) -> None:
    r = Runner(ctx)
    try:
        if wit.get("family") == "rel":
            root = wit["root"]
            cls, obs = r._rel_eval(root)
            print("replay C08: relation direct == pass-through / super-only descendants")
            print(f"  root: {rel_source(root)}")
            for name, tpls in rel_variants(root).items():
                print(f"  {name}: " + " <- ".join(f"{k}={v!r}" for k, v in tpls.items() if k != "r"))
            for k, a in obs.items():
                print(f"  {k:20s}: {a!r}" + ("" if a == obs['direct/sync'] else "   <-- differs"))
            print(f"  verdict: {cls or 'no violation'}")
            if cls and cls != "root-error":
                r.relation(root)
            return
        if wit.get("family") == "reuse":
            print(f"replay C08: one leaf Template object, ancestors changed: {wit['mutations']}")
            key = r.reuse(wit["base"], list(wit["mutations"]))
            print(f"  verdict: {key or 'no violation'}")
            for v in ctx.violations.values():
                print("  " + v["what"])
            return
        if wit.get("family") == "reuse-theme":
            key = r.reuse_theme(tuple(wit["cfg"]), list(wit["themes"]))
            print(f"replay C08: context-aware loader, themes {wit['themes']}: {key or 'no violation'}")
            return
        if wit.get("family") == "hist":
            prog, steps, data = wit["prog"], [list(x) for x in wit["steps"]], wit.get("data") or DATA
            print(f"replay C08: history on one Environment, loader={wit.get('loader')}")
            for name, src in M.emit(prog).items():
                print(f"  {name}: {src}")
            what, j, exp, obs = r._history_verdict(prog, steps, data, wit.get("loader", "caching"))
            for i, ((e, m), x, a) in enumerate(zip(steps, exp, obs)):
                print(f"  step {i}: render {e} ({m}): expected {x.sig()!r} observed {a!r}"
                      f"  -> {r.judge(x, a) or 'ok'}")
            print(f"  verdict: {what or 'no violation'}")
            if what:
                r.history(prog, steps, data)
            return
        prog, entry, data = wit["prog"], wit["entry"], wit.get("data") or DATA
        r.esc_cur = bool(wit.get("esc"))
        r.nosup_cur = bool(wit.get("nosup"))
        if wit.get("style"):
            M.set_style(tuple([int(wit["style"][0]), *[bool(x) for x in wit["style"][1:]]]))
        r.ws_cur = bool(wit.get("ws"))
        r.what_prefix = wit.get("what_prefix") or ""
        what, E, obs = r.evaluate(prog, entry, data)
        print(f"replay C08: family={wit.get('family')} entry={entry} data={data}")
        for name, src in M.emit(prog).items():
            print(f"  {name}: {src}")
        print(f"  expected (reference resolution): {E.sig()!r}"
              + (" [don't-care: unreached required block]" if E.dont_care else ""))
        if r.last_Eesc is not None:
            print(f"  expected under auto_escape with d={ESC_D!r}: {r.last_Eesc.sig()!r}")
        for m in obs:
            Em = r.last_Eesc if m in ESC_MODES else E
            mw = r.ws_cur and m not in NOSUP_MODES
            print(f"  observed {m:17s}: {obs[m]!r}  -> {r.judge(Em, obs[m], modws=mw) or 'ok'}"
                  + (" (compared modulo whitespace)" if mw else ""))
        if what:
            key = f"{shape(prog, entry)}:{what}"
            print(f"  key={key}")
            ctx.violation(key, f"expected {E.sig()!r}, observed {obs['sync'][:2]!r}",
                          {"family": wit.get("family"), "prog": prog, "entry": entry, "data": data})
        else:
            print("  no violation")
    finally:
        r.close()
