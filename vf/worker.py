"""One shard: python -m vf.worker <Cxx> <spec.json> <out.json>"""

from __future__ import annotations

import importlib
import json
import sys
import time

from .core import Ctx
from .core import Stop
from .core import from_tagged
from .core import use_repo


def main() -> int:
    prop, specf, outf = sys.argv[1:4]
    with open(specf) as f:
        spec = json.load(f)
    use_repo()
    try:
        import resource

        lim = int(spec.get("mem_limit", 6 * 2**30))
        resource.setrlimit(resource.RLIMIT_AS, (lim, lim))
    except Exception:  # noqa: BLE001
        pass
    sys.setrecursionlimit(max(sys.getrecursionlimit(), 3000))
    mod = importlib.import_module(f"vf.props.{prop.lower()}")
    budget = spec.get("budget_s")
    ctx = Ctx(prop, spec["tier"], spec["seed"], time.time() + budget if budget else None)
    try:
        if spec.get("kind") == "replay":
            w = spec["witness"]
            wit = from_tagged(w.get("witness", w))
            mod.replay(wit, ctx)
            for v in ctx.violations.values():
                print(f"replayed: {v['key']}: {v['what']}", file=sys.stderr)
        else:
            mod.run_shard(spec, ctx)
    except Stop:
        pass
    with open(outf, "w") as f:
        json.dump(ctx.out(), f, default=str)
    return 0


if __name__ == "__main__":
    sys.exit(main())
