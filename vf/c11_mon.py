"""C11 monitors and oracle: runtime usage (lookups, global-namespace hits, filters applied,
tags rendered) recorded from the real render, compared with Template.analyze().

All monitors are attached by replacing methods on the classes imported from the repo
(RenderContext.get/get_async/resolve/filter/assign/extend/copy/increment/decrement and
ast.Node.render/render_async).  Nothing under /repo is modified.

A *case* is a JSON-able dict:
    {"templates": {name: source}, "root": name, "datasets": [data, ...],
     "dynamic": bool,            # dynamic partial names -> include_partials=False
     "binders": [names] | None,  # names bound anywhere in the template set (generator's view)
     "posmap": {name: {"paths": [[start, stop, segments, label]], "filters": [[start, stop, name]],
                       "tags": [[start, stop, name, label]]}} | None}
`check_case` returns the list of (key, what, detail) violations it found.
"""

from __future__ import annotations

import asyncio
import os
import re
import shutil
import tempfile
from collections.abc import Mapping
from typing import Any

ACTIVE: "Recorder | None" = None
_INSTALLED = False

# node classes that open a block scope / a partial scope in the static analysis
SCOPE_NODE_NAMES = {
    "ForNode", "TablerowNode", "WithNode", "MacroNode", "CallNode", "IncludeNode", "RenderNode",
    "TranslateNode", "BlockNode@extends", "ExtendsNode",
}


# The property's clause excludes names that the template binds somewhere.  Lookups of such
# names that are nevertheless served by the global namespace while analyze() treats the
# occurrence as bound are collected as diagnostics (counters `diag:*`, probe notes); set this
# to True to report them as violations `globals:bound-elsewhere:<scope node>`.
SCOPE_MISMATCH_IS_VIOLATION = False

IMPLICIT_CONFIG_NAMES = {
    "translations", "locale", "input_locale", "timezone", "input_timezone", "currency_code",
    "currency_format", "datetime_format", "decimal_format", "decimal_quantization", "unit_format",
    "unit_length",
}


def _attrs(obj: Any) -> list[str]:
    names: list[str] = []
    for c in type(obj).__mro__:
        sl = getattr(c, "__slots__", ())
        names += [sl] if isinstance(sl, str) else list(sl)
    d = getattr(obj, "__dict__", None)
    if d:
        names += list(d)
    return names


def _children_of(o: Any) -> list[tuple[str, Any]]:
    """(attribute, value) pairs of a liquid2 object; list/dict members flattened."""
    out: list[tuple[str, Any]] = []
    for a in _attrs(o):
        if a in ("token", "env", "source", "blank", "end_tag_token"):
            continue
        try:
            v = getattr(o, a)
        except AttributeError:
            continue
        if isinstance(v, (list, tuple)):
            out += [(a, x) for x in v]
        elif isinstance(v, dict):
            out += [(a, x) for x in v.values()]
        else:
            out.append((a, v))
    return out


def _is_l2(o: Any) -> bool:
    return o is not None and not isinstance(o, (str, int, float, bool)) and \
        type(o).__module__.startswith("liquid2") and not type(o).__name__.endswith("Token")


def locate(node: Any, token: Any, want: str) -> list[tuple[Any, str, Any]]:
    """Links (owner, attribute, value) from the rendering *node* down to the object of
    class *want* that owns *token*.  Only used to name the mechanism of a violation,
    never to decide one."""
    if node is None or token is None:
        return []
    seen: set[int] = set()

    def walk(o: Any, chain: list[tuple[Any, str, Any]], depth: int) -> list[tuple[Any, str, Any]] | None:
        if depth > 16 or id(o) in seen:
            return None
        seen.add(id(o))
        if type(o).__name__ == want and getattr(o, "token", None) is token:
            return chain
        for a, v in _children_of(o):
            if isinstance(v, (list, tuple)):
                vs = [(a, x) for x in v]
            else:
                vs = [(a, v)]
            for a2, v2 in vs:
                if not _is_l2(v2):
                    continue
                r = walk(v2, chain + [(o, a2, v2)], depth + 1)
                if r is not None:
                    return r
        return None

    return walk(node, [], 0) or []


def _node_name(node: Any) -> str:
    cls = type(node)
    n = cls.__name__
    if n == "BlockNode" and cls.__module__.endswith("extends_tag"):
        return "BlockNode@extends"
    return n


class Recorder:
    """What one render did."""

    def __init__(self) -> None:
        self.node_stack: list[Any] = []
        self.filter_stack: list[str] = []
        self.cur: tuple | None = None
        self.reset()

    def reset(self) -> None:
        self.lookups: dict[tuple, tuple] = {}  # (source, start, stop) -> (path, node name)
        self.tokenless: dict[str, str] = {}  # root -> node name (get() called without a token)
        self.resolves: dict[tuple, dict] = {}  # (name, owner) -> info ; only those that reached globals
        self.filters: dict[tuple, str] = {}  # (source, start, stop, name) -> node name
        self.tags: dict[tuple, str] = {}  # (source, start, stop, name) -> node name
        self.global_hits: dict[str, dict] = {}  # name -> first context
        self.global_locs: dict[tuple, tuple] = {}  # (source, start, stop) -> (name, node, scope node)
        self.bound: set[str] = set()
        self.namespaces: list[Any] = []
        self.n_get = 0
        self.n_resolve = 0
        self.n_filter = 0
        self.n_node = 0
        self.n_global = 0
        self.n_matter_hits = 0
        del self.node_stack[:]
        del self.filter_stack[:]
        self.cur = None

    # -- helpers
    def node_top(self) -> str:
        return _node_name(self.node_stack[-1]) if self.node_stack else "<template>"

    def node_obj(self) -> Any:
        return self.node_stack[-1] if self.node_stack else None

    def scope_node(self) -> str:
        for n in reversed(self.node_stack):
            nm = _node_name(n)
            if nm in SCOPE_NODE_NAMES:
                return nm
        return "top-level"

    def owner(self) -> str:
        if self.filter_stack:
            return "filter:" + self.filter_stack[-1]
        return self.node_top()

    def bound_names(self) -> set[str]:
        out = set(self.bound)
        for ns in self.namespaces:
            try:
                out.update(k for k in ns if isinstance(k, str))
            except Exception:  # noqa: BLE001
                pass
        return out

    # -- events
    def on_get(self, path: list[object], token: Any) -> None:
        self.n_get += 1
        if token is None or not hasattr(token, "source"):
            root = path[0] if path else None
            if isinstance(root, str):
                self.tokenless.setdefault(root, self.node_top())
            return
        key = (token.source, token.start, token.stop)
        if key not in self.lookups:
            self.lookups[key] = (list(path), self.node_top(), tuple(self.node_stack), token)

    def on_global(self, key: object) -> None:
        self.n_global += 1
        if not isinstance(key, str):
            return
        cur = self.cur
        if cur is not None and cur[0] == "resolve":
            rk = (key, self.owner())
            if rk not in self.resolves:
                node = self.node_stack[-1] if self.node_stack else None
                tok = getattr(node, "token", None)
                end = getattr(getattr(node, "end_tag_token", None), "stop", None)
                self.resolves[rk] = {
                    "name": key, "owner": rk[1], "source": getattr(tok, "source", None),
                    "start": getattr(tok, "start", None),
                    "stop": end if end is not None else getattr(tok, "stop", None),
                }
        if cur is not None and cur[0] == "get" and cur[1] is not None and hasattr(cur[1], "source"):
            lk = (cur[1].source, cur[1].start, cur[1].stop)
            if lk not in self.global_locs:
                self.global_locs[lk] = (key, self.node_top(), self.scope_node())
        if key not in self.global_hits:
            info: dict[str, Any] = {"node": self.node_top(), "scope_node": self.scope_node(),
                                    "owner": self.owner()}
            if cur is None:
                info["via"] = "other"
            elif cur[0] == "get":
                tok = cur[1]
                info["via"] = "get"
                if tok is not None and hasattr(tok, "source"):
                    info["loc"] = (tok.source, tok.start, tok.stop)
            else:
                info["via"] = "resolve"
            self.global_hits[key] = info

    def on_node(self, node: Any, context: Any) -> None:
        self.n_node += 1
        tok = node.token
        name = getattr(tok, "name", None)
        if name is None or not hasattr(tok, "start"):
            return
        tn = type(tok).__name__
        if tn not in ("TagToken", "LinesToken"):
            return
        if type(node).__name__ in ("ConditionalBlockNode", "MultiExpressionBlockNode"):
            return
        if type(node).__name__ == "BlockNode" and not type(node).__module__.endswith("extends_tag"):
            return
        if context.disabled_tags and name in context.disabled_tags:
            return  # raises DisabledTagError: the tag is not executed
        key = (tok.source, tok.start, tok.stop, name)
        if key not in self.tags:
            self.tags[key] = (_node_name(node), tuple(self.node_stack))

    def on_filter(self, name: str, token: Any) -> None:
        self.n_filter += 1
        key = (getattr(token, "source", None), getattr(token, "start", None),
               getattr(token, "stop", None), name)
        if key not in self.filters:
            self.filters[key] = (self.node_top(), tuple(self.node_stack), token)

    def on_namespace(self, ns: Any) -> None:
        try:
            self.bound.update(k for k in ns if isinstance(k, str))
        except Exception:  # noqa: BLE001
            return
        if len(self.namespaces) < 4000:
            self.namespaces.append(ns)  # filled later by for/tablerow/lambda: read again at the end


class RecordingMapping(Mapping):  # type: ignore[type-arg]
    """The global layer of a render: logs every key that reaches it."""

    def __init__(self, data: Any, rec: Recorder, matter: bool = False):
        self._data = data
        self._rec = rec
        self._matter = matter

    def __getitem__(self, key: Any) -> Any:
        self._rec.on_global(key)
        v = self._data[key]
        if self._matter:
            self._rec.n_matter_hits += 1  # a global-namespace lookup answered by loader matter
        return v

    def __contains__(self, key: Any) -> bool:
        self._rec.on_global(key)
        return key in self._data

    def __iter__(self):  # noqa: ANN204
        return iter(self._data)

    def __len__(self) -> int:
        return len(self._data)

    def __bool__(self) -> bool:
        return True


def install() -> None:
    """Attach the monitors to the classes of the imported working tree (once)."""
    global _INSTALLED  # noqa: PLW0603
    if _INSTALLED:
        return
    _INSTALLED = True
    from liquid2 import ast
    from liquid2.context import RenderContext
    from liquid2.undefined import UNDEFINED

    o_get = RenderContext.get
    o_get_async = RenderContext.get_async
    o_resolve = RenderContext.resolve
    o_filter = RenderContext.filter
    o_assign = RenderContext.assign
    o_extend = RenderContext.extend
    o_copy = RenderContext.copy
    o_incr = RenderContext.increment
    o_decr = RenderContext.decrement
    o_render = ast.Node.render
    o_render_async = ast.Node.render_async

    def get(self, path, *, token, default=UNDEFINED):  # noqa: ANN001, ANN202
        rec = ACTIVE
        if rec is None:
            return o_get(self, path, token=token, default=default)
        rec.on_get(path, token)
        prev = rec.cur
        rec.cur = ("get", token)
        try:
            return o_get(self, path, token=token, default=default)
        finally:
            rec.cur = prev

    async def get_async(self, path, *, token, default=UNDEFINED):  # noqa: ANN001, ANN202
        rec = ACTIVE
        if rec is None:
            return await o_get_async(self, path, token=token, default=default)
        rec.on_get(path, token)
        prev = rec.cur
        rec.cur = ("get", token)
        try:
            return await o_get_async(self, path, token=token, default=default)
        finally:
            rec.cur = prev

    def resolve(self, name, default=UNDEFINED):  # noqa: ANN001, ANN202
        rec = ACTIVE
        if rec is None:
            return o_resolve(self, name, default)
        rec.n_resolve += 1
        prev = rec.cur
        rec.cur = ("resolve", name)
        try:
            return o_resolve(self, name, default)
        finally:
            rec.cur = prev

    def filter_(self, name, *, token):  # noqa: ANN001, ANN202
        func = o_filter(self, name, token=token)
        rec = ACTIVE
        if rec is None:
            return func

        def applied(*a, **k):  # noqa: ANN002, ANN003, ANN202
            rec.on_filter(name, token)
            rec.filter_stack.append(name)
            try:
                return func(*a, **k)
            finally:
                rec.filter_stack.pop()

        return applied

    def assign(self, key, val):  # noqa: ANN001, ANN202
        rec = ACTIVE
        if rec is not None and isinstance(key, str):
            rec.bound.add(key)
        return o_assign(self, key, val)

    def extend(self, namespace, template=None):  # noqa: ANN001, ANN202
        rec = ACTIVE
        if rec is not None:
            rec.on_namespace(namespace)
        return o_extend(self, namespace, template)

    def copy(self, token, *, namespace, **kw):  # noqa: ANN001, ANN003, ANN202
        rec = ACTIVE
        if rec is not None:
            rec.on_namespace(namespace)
        return o_copy(self, token, namespace=namespace, **kw)

    def increment(self, name):  # noqa: ANN001, ANN202
        rec = ACTIVE
        if rec is not None:
            rec.bound.add(name)
        return o_incr(self, name)

    def decrement(self, name):  # noqa: ANN001, ANN202
        rec = ACTIVE
        if rec is not None:
            rec.bound.add(name)
        return o_decr(self, name)

    def render(self, context, buffer):  # noqa: ANN001, ANN202
        rec = ACTIVE
        if rec is None:
            return o_render(self, context, buffer)
        rec.on_node(self, context)
        rec.node_stack.append(self)
        try:
            return o_render(self, context, buffer)
        finally:
            rec.node_stack.pop()

    async def render_async(self, context, buffer):  # noqa: ANN001, ANN202
        rec = ACTIVE
        if rec is None:
            return await o_render_async(self, context, buffer)
        rec.on_node(self, context)
        rec.node_stack.append(self)
        try:
            return await o_render_async(self, context, buffer)
        finally:
            rec.node_stack.pop()

    RenderContext.get = get  # type: ignore[method-assign]
    RenderContext.get_async = get_async  # type: ignore[method-assign]
    RenderContext.resolve = resolve  # type: ignore[method-assign]
    RenderContext.filter = filter_  # type: ignore[method-assign]
    RenderContext.assign = assign  # type: ignore[method-assign]
    RenderContext.extend = extend  # type: ignore[method-assign]
    RenderContext.copy = copy  # type: ignore[method-assign]
    RenderContext.increment = increment  # type: ignore[method-assign]
    RenderContext.decrement = decrement  # type: ignore[method-assign]
    ast.Node.render = render  # type: ignore[method-assign]
    ast.Node.render_async = render_async  # type: ignore[method-assign]


# --------------------------------------------------------------------------- static side


def seg_tuple(segs: Any) -> Any:
    if isinstance(segs, (list, tuple)):
        return tuple(seg_tuple(s) for s in segs)
    if isinstance(segs, str):
        return str(segs)  # Identifier -> str
    return segs


def covers(static_segs: Any, runtime_path: list[object]) -> bool:
    """static ['a', ['b','c'], 0] covers runtime ['a', <value of b.c>, 0]."""
    if len(static_segs) != len(runtime_path):
        return False
    for s, r in zip(static_segs, runtime_path):
        if isinstance(s, (list, tuple)):
            continue
        if isinstance(s, bool) or isinstance(r, bool):
            if s is not r:
                return False
        elif type(s) is not type(r) and not (isinstance(s, str) and isinstance(r, str)):
            return False
        elif s != r:
            return False
    return True


def canon(a: Any) -> dict[str, Any]:
    """Order-preserving, span-including rendition of a TemplateAnalysis."""
    out: dict[str, Any] = {}
    for field in ("variables", "globals", "locals"):
        out[field] = [
            (k, [(seg_tuple(v.segments), v.span.template_name, v.span.start, v.span.end) for v in vs])
            for k, vs in getattr(a, field).items()
        ]
    for field in ("filters", "tags"):
        out[field] = [
            (k, [(sp.template_name, sp.start, sp.end) for sp in sps])
            for k, sps in getattr(a, field).items()
        ]
    return out


def canon_by_source(c: dict[str, Any], src_of: Any) -> dict[str, Any]:
    """Same, with template names replaced by the identity of the source they denote."""
    out: dict[str, Any] = {}
    for field in ("variables", "globals", "locals"):
        out[field] = [(k, [(s, src_of(n), a, b) for s, n, a, b in vs]) for k, vs in c[field]]
    for field in ("filters", "tags"):
        out[field] = [(k, [(src_of(n), a, b) for n, a, b in sps]) for k, sps in c[field]]
    return out


RE_COMMENT_BEFORE = re.compile(r"#\}|\{%[-+~]?\s*endcomment\s*[-+~]?%\}|\{%[-+~]?\s*#[^%]*%\}")
RE_TAG_OPEN = re.compile(r"\{%[-+~]?\s*([A-Za-z_][\w-]*)")


def _path_what(src: str, start: int, end: int) -> str:
    if not (0 <= start < end <= len(src)):
        return "bad-offsets"
    before = src[:start]
    tail = before.rstrip()
    if tail.endswith("(") or tail.endswith(".."):
        return "range-operand"
    m = None
    for m in RE_COMMENT_BEFORE.finditer(before):
        pass
    if m is not None:
        # is the comment the last markup before this one?
        rest = before[m.end():]
        if rest.count("{{") + rest.count("{%") <= 1:
            return "after-comment"
    if "${" in before[before.rfind("{{") if "{{" in before else 0:]:
        return "template-string"
    return "mismatch"


class Static:
    """Indexes of one TemplateAnalysis."""

    def __init__(self, a: Any):
        self.a = a
        self.var_at: dict[tuple, list[Any]] = {}
        self.var_roots_by_t: dict[str, dict[str, list[tuple[int, int]]]] = {}
        for root, vs in a.variables.items():
            for v in vs:
                sp = v.span
                self.var_at.setdefault((sp.template_name, sp.start, sp.end), []).append(v.segments)
                self.var_roots_by_t.setdefault(sp.template_name, {}).setdefault(str(root), []).append(
                    (sp.start, sp.end))
        self.global_at = {(v.span.template_name, v.span.start, v.span.end) for vs in a.globals.values() for v in vs}
        self.global_roots_by_t: dict[str, dict[str, list[tuple[int, int]]]] = {}
        for root, vs in a.globals.items():
            for v in vs:
                self.global_roots_by_t.setdefault(v.span.template_name, {}).setdefault(str(root), []).append(
                    (v.span.start, v.span.end))
        self.filter_at = {(sp.template_name, sp.start, sp.end, k) for k, sps in a.filters.items() for sp in sps}
        self.tag_at = {(sp.template_name, sp.start, sp.end, k) for k, sps in a.tags.items() for sp in sps}
        self.global_names = {str(k) for k in a.globals}
        self.variable_names = {str(k) for k in a.variables}


_LOOP: Any = None
_SUSPENDING: Any = None
LOADER_KINDS = ("dict", "suspend", "fs", "route", "route-suspend")
_ROUTED: dict[str, Any] = {}
ROUTE_PREFIX = "snippets/"
ROUTED_TAGS = ("include", "render")


def run_async(coro: Any) -> Any:
    """Run a liquid2 coroutine to completion under a real event loop (one per process),
    so that any legal asyncio use in the code under test works (gather, sleep,
    run_in_executor of the file system loader, ...)."""
    global _LOOP  # noqa: PLW0603
    if _LOOP is None or _LOOP.is_closed():
        _LOOP = asyncio.new_event_loop()
    return _LOOP.run_until_complete(coro)


drive = run_async  # old name


def suspending_loader(templates: dict[str, str]) -> Any:
    """A DictLoader whose async path really suspends: 1-3 trips through the event loop,
    the number depending on the template name (so that concurrent loads finish in an
    order different from the one they were started in)."""
    global _SUSPENDING  # noqa: PLW0603
    if _SUSPENDING is None:
        from liquid2 import DictLoader

        class SuspendingDictLoader(DictLoader):
            async def get_source_async(self, env, template_name, *, context=None, **kwargs):  # noqa: ANN001, ANN003, ANN202
                for _ in range(1 + sum(map(ord, template_name)) % 3):
                    await asyncio.sleep(0)
                return self.get_source(env, template_name, context=context, **kwargs)

        _SUSPENDING = SuspendingDictLoader
    return _SUSPENDING(templates)


def routed_loader(physical: dict[str, str], kind: str) -> Any:
    """Loaders that use the load context, as docs/loading_templates.md "Load context" shows:
    `route`: targets of include/render are served from 'snippets/' (keyword argument `tag`), and
    only when the caller passed a render context; `route-suspend`: same, async path suspends;
    `relative`: a name is first resolved against the directory of `context.template`."""
    if "route" not in _ROUTED:
        from liquid2 import DictLoader
        from liquid2.exceptions import TemplateNotFoundError

        class RoutedLoader(DictLoader):
            def get_source(self, env, template_name, *, context=None, **kwargs):  # noqa: ANN001, ANN003, ANN202
                if kwargs.get("tag") in ROUTED_TAGS:
                    if context is None:
                        raise TemplateNotFoundError(template_name)
                    template_name = ROUTE_PREFIX + template_name
                return super().get_source(env, template_name, context=context, **kwargs)

        class SuspendingRoutedLoader(RoutedLoader):
            async def get_source_async(self, env, template_name, *, context=None, **kwargs):  # noqa: ANN001, ANN003, ANN202
                for _ in range(1 + sum(map(ord, template_name)) % 3):
                    await asyncio.sleep(0)
                return self.get_source(env, template_name, context=context, **kwargs)

        class RelativeLoader(DictLoader):
            def get_source(self, env, template_name, *, context=None, **kwargs):  # noqa: ANN001, ANN003, ANN202
                cur = getattr(getattr(context, "template", None), "path", None)
                if cur and "/" in str(cur) and "tag" in kwargs:
                    rel = str(cur).rsplit("/", 1)[0] + "/" + template_name
                    if rel in self.templates:
                        template_name = rel
                return super().get_source(env, template_name, context=context, **kwargs)

        _ROUTED.update({"route": RoutedLoader, "route-suspend": SuspendingRoutedLoader, "relative": RelativeLoader})
    return _ROUTED[kind](physical)


MATTER_KINDS = ("matter-dict", "matter-dict-async", "matter-fs", "matter-fromstring")
RE_FRONT = re.compile(r"\A---\n(.*?)\n---\n", re.S)


def matter_loader(kind: str, templates: dict[str, str], matter: dict[str, Any], tmp: str | None) -> Any:
    """Loaders that pin MATTER to the templates they load (docs/loading_templates.md "Matter"):
    a dict loader overriding only get_source, one overriding both paths (the async one
    suspends), and a file system loader that reads JSON front matter (both paths)."""
    if "matter-dict" not in _ROUTED:
        import json

        from liquid2 import DictLoader
        from liquid2 import FileSystemLoader
        from liquid2.loader import TemplateSource

        class MatterDictLoader(DictLoader):
            def __init__(self, templates, matter):  # noqa: ANN001, ANN204
                super().__init__(templates)
                self.matter = matter

            def get_source(self, env, template_name, *, context=None, **kwargs):  # noqa: ANN001, ANN003, ANN202
                src = super().get_source(env, template_name, context=context, **kwargs)
                m = self.matter.get(template_name)
                return TemplateSource(src.source, src.name, src.uptodate, dict(m) if m else None)

        class MatterDictLoaderAsync(MatterDictLoader):
            async def get_source_async(self, env, template_name, *, context=None, **kwargs):  # noqa: ANN001, ANN003, ANN202
                for _ in range(1 + sum(map(ord, template_name)) % 3):
                    await asyncio.sleep(0)
                return self.get_source(env, template_name, context=context, **kwargs)

        class FrontMatterFileSystemLoader(FileSystemLoader):
            @staticmethod
            def _split(src):  # noqa: ANN001, ANN205
                m = RE_FRONT.match(src.source)
                if not m:
                    return src
                return TemplateSource(src.source[m.end():], src.name, src.uptodate, json.loads(m.group(1)))

            def get_source(self, env, template_name, *, context=None, **kwargs):  # noqa: ANN001, ANN003, ANN202
                return self._split(super().get_source(env, template_name, context=context, **kwargs))

            async def get_source_async(self, env, template_name, *, context=None, **kwargs):  # noqa: ANN001, ANN003, ANN202
                return self._split(await super().get_source_async(env, template_name, context=context, **kwargs))

        _ROUTED.update({"matter-dict": MatterDictLoader, "matter-dict-async": MatterDictLoaderAsync,
                        "matter-fs": FrontMatterFileSystemLoader})
    if kind == "matter-fs":
        return _ROUTED[kind](tmp)
    return _ROUTED[kind](templates, matter)


class Case:
    """A loaded case: environment (dict loader, suspending dict loader or file system
    loader over a scratch directory), root template, name<->source maps."""

    def __init__(self, case: dict[str, Any]):
        from liquid2 import DictLoader
        from liquid2 import FileSystemLoader
        from liquid2.shopify import Environment

        self.case = case
        self.templates: dict[str, str] = case["templates"]
        self.root: str = case["root"]
        self.dynamic = bool(case.get("dynamic"))
        self.tmp: str | None = None
        kind = case.get("loader") or "dict"
        self.matter: dict[str, Any] = case.get("matter") or {}
        if kind == "fs" and not self._fs_ok():
            kind = "suspend"
        if kind == "matter-fs" and not self._fs_ok():
            kind = "matter-dict-async"
        self.loader_kind = kind
        if kind in ("fs", "matter-fs"):
            self.tmp = tempfile.mkdtemp(prefix="vf-c11-")
            try:
                for n, src in self.templates.items():
                    fp = os.path.join(self.tmp, *n.split("/"))
                    os.makedirs(os.path.dirname(fp), exist_ok=True)
                    with open(fp, "w", encoding="utf-8", newline="") as f:
                        if kind == "matter-fs" and self.matter.get(n):
                            import json

                            f.write("---\n" + json.dumps(self.matter[n]) + "\n---\n")
                        f.write(src)
            except OSError as err:
                self.close()
                raise KeyError(f"cannot lay out the template set as files: {err!r}") from None
            loader: Any = FileSystemLoader(self.tmp) if kind == "fs" else matter_loader(kind, {}, {}, self.tmp)
        elif kind in ("matter-dict", "matter-dict-async"):
            loader = matter_loader(kind, self.templates, self.matter, None)
        elif kind == "suspend":
            loader = suspending_loader(self.templates)
        elif kind in ("route", "route-suspend"):
            parts = set(case.get("partials") or ())
            physical = {(ROUTE_PREFIX + n if n in parts else n): src for n, src in self.templates.items()}
            for n, src in (case.get("decoys") or {}).items():
                physical.setdefault(n, src)  # what a caller that forgets the load context gets
            loader = routed_loader(physical, kind)
        elif kind == "relative":
            loader = routed_loader(dict(self.templates), kind)
        else:
            loader = DictLoader(self.templates)
        try:
            self.env = Environment(loader=loader)
            if kind == "matter-fromstring":
                # the root made from a string with overlay_data=..., partials from a dict loader
                self.t = self.env.from_string(self.templates[self.root], name=self.root,
                                              overlay_data=dict(self.matter.get(self.root) or {}))
            else:
                self.t = self.env.get_template(self.root)
            self.root_matter: dict[str, Any] = dict(self.t.overlay_data or {})
        except BaseException:
            self.close()
            raise
        self.root_src = self.templates[self.root]
        self.names_of: dict[str, list[str]] = {}
        for n, s in self.templates.items():
            self.names_of.setdefault(s, []).append(n)
        if self.t.name not in self.names_of[self.root_src]:
            self.names_of[self.root_src].append(self.t.name)

    def _fs_ok(self) -> bool:
        """Can the set live in a directory with byte-identical sources?"""
        names = list(self.templates)
        for n in names:
            parts = n.split("/")
            if n.startswith("/") or any(p in ("", ".", "..") for p in parts) or "\\" in n or "\0" in n:
                return False
            if any(m != n and m.startswith(n + "/") for m in names):
                return False  # a file and a directory of the same name
        return not any("\r" in s for s in self.templates.values())  # universal newlines would rewrite them

    def close(self) -> None:
        if self.tmp is not None:
            shutil.rmtree(self.tmp, ignore_errors=True)
            self.tmp = None

    def source_named(self, name: str) -> str | None:
        if name == self.t.name:
            return self.root_src
        return self.templates.get(name)


class Checker:
    """Runs the whole oracle for one case.  `out` collects (key, what, detail)."""

    def __init__(self, ctx: Any = None, record: bool = True):
        self.ctx = ctx
        self.record = record and ctx is not None
        self.rec = Recorder()
        self.case_exec: set[tuple] = set()
        self.diag: list[dict[str, Any]] = []  # scope diagnostics of the current case
        self._relex_cache: dict[str, Any] = {}
        self._relex_env: Any = None

    def count(self, name: str, n: int = 1) -> None:
        if self.record:
            self.ctx.count(name, n)

    def seen(self, setname: str, item: object) -> None:
        if self.record:
            self.ctx.seen(setname, item)

    # ------------------------------------------------------------------ spans
    def relex(self, text: str) -> Any:
        """Segments of the single path that `{{ text }}` denotes, or an error string."""
        c = self._relex_cache
        if text in c:
            return c[text]
        if self._relex_env is None:
            from liquid2.shopify import Environment

            self._relex_env = Environment()
        env = self._relex_env
        from liquid2.builtin import FilteredExpression
        from liquid2.builtin import Path
        from liquid2.exceptions import LiquidError

        res: Any
        try:
            toks = env.tokenize("{{ " + text + " }}")
            if len(toks) != 1 or type(toks[0]).__name__ != "OutputToken":
                res = f"lexes to {[type(t).__name__ for t in toks]}"
            else:
                inner = [t for t in toks[0].expression if t.type_.name not in ("EOI",)]
                if len(inner) != 1:
                    res = f"lexes to {len(inner)} expression tokens"
                else:
                    nodes = env.parser.parse(toks)
                    ex = nodes[0].expression
                    if not isinstance(ex, FilteredExpression) or ex.filters or not isinstance(ex.left, Path):
                        res = f"parses to {type(getattr(ex, 'left', ex)).__name__}"
                    else:
                        res = seg_tuple(ex.left.segments())
        except LiquidError as e:
            res = f"does not lex: {type(e).__name__}"
        if len(c) > 20000:
            c.clear()
        c[text] = res
        return res

    def check_spans(self, cs: Case, st: Static, out: list) -> None:
        a = st.a
        for field in ("variables", "globals"):
            for root, vs in getattr(a, field).items():
                for v in vs:
                    sp = v.span
                    self.count("spans_relexed")
                    self.count(f"spans:{field}")
                    src = cs.source_named(sp.template_name)
                    if src is None:
                        out.append(("span:Path:unknown-template-name",
                                    f"{field} entry {list(v.segments)!r} names template {sp.template_name!r} which is neither the root nor a loader name",
                                    {"template_name": sp.template_name, "start": sp.start, "end": sp.end}))
                        continue
                    what = None
                    if not (0 <= sp.start < sp.end <= len(src)):
                        what = "bad-offsets"
                        if 0 < sp.start <= len(src) and src[:sp.start].rstrip().endswith(("(", "..")):
                            what = "range-operand-bad-offsets"
                        got: Any = None
                        text = ""
                    else:
                        text = src[sp.start:sp.end]
                        got = self.relex(text)
                        if got != seg_tuple(v.segments):
                            what = _path_what(src, sp.start, sp.end)
                    if what is None and str(root) != str(seg_tuple(v.segments)[0] if not isinstance(v.segments[0], (list, tuple)) else root):
                        what = "filed-under-wrong-root"
                    if what:
                        out.append((f"span:Path:{what}",
                                    f"{field} entry {list(v.segments)!r} at {sp.template_name!r}[{sp.start}:{sp.end}] = {text!r} re-lexes to {got!r}",
                                    {"template_name": sp.template_name, "start": sp.start, "end": sp.end,
                                     "text": text, "segments": seg_tuple(v.segments)}))
        for root, vs in a.locals.items():
            for v in vs:
                sp = v.span
                self.count("spans_relexed")
                self.count("spans:locals")
                src = cs.source_named(sp.template_name)
                text = src[sp.start:sp.end] if src is not None and 0 <= sp.start <= sp.end <= len(src) else None
                if text != str(root) or seg_tuple(v.segments) != (str(root),):
                    out.append(("span:local:" + ("unknown-template-name" if src is None else "mismatch"),
                                f"local {root!r} at {sp.template_name!r}[{sp.start}:{sp.end}] = {text!r}",
                                {"template_name": sp.template_name, "start": sp.start, "end": sp.end}))
        for name, sps in a.filters.items():
            for sp in sps:
                self.count("spans_relexed")
                self.count("spans:filters")
                src = cs.source_named(sp.template_name)
                text = src[sp.start:sp.end] if src is not None and 0 <= sp.start <= sp.end <= len(src) else None
                if text != name:
                    what = "unknown-template-name" if src is None else (
                        "bad-offsets" if text is None else _path_what(src, sp.start, max(sp.end, sp.start + 1)))
                    out.append((f"span:filter:{what}",
                                f"filter {name!r} at {sp.template_name!r}[{sp.start}:{sp.end}] = {text!r}",
                                {"template_name": sp.template_name, "start": sp.start, "end": sp.end}))
        for name, sps in a.tags.items():
            for sp in sps:
                self.count("spans_relexed")
                self.count("spans:tags")
                src = cs.source_named(sp.template_name)
                what = self._tag_span_what(src, sp.start, sp.end, name)
                if what:
                    text = src[sp.start:sp.end] if src is not None else None
                    out.append((f"span:tag:{what}",
                                f"tag {name!r} at {sp.template_name!r}[{sp.start}:{sp.end}] = {text!r}",
                                {"template_name": sp.template_name, "start": sp.start, "end": sp.end,
                                 "tag": name}))

    @staticmethod
    def _tag_span_what(src: str | None, start: int, end: int, name: str) -> str | None:
        if src is None:
            return "unknown-template-name"
        if not (0 <= start < end <= len(src)):
            return "bad-offsets"
        text = src[start:end]
        before = src[:start]
        i = before.rfind("{%")
        in_liquid = i >= 0 and "%}" not in before[i:] and re.match(r"\{%[-+~]?\s*liquid\b", before[i:]) is not None
        if not in_liquid:
            m = RE_TAG_OPEN.match(text)
            if not m or m.group(1) != name:
                if text.startswith("{#") or re.match(r"\{%[-+~]?\s*(#|comment\b)", text):
                    return "after-comment"
                return "after-comment" if RE_COMMENT_BEFORE.search(before) else "not-at-the-tag"
            if not text.endswith("%}"):
                return "markup-not-closed"
            if text.count("%}") != 1 and "'" not in text and '"' not in text:
                return "extends-past-the-markup"
            return None
        # a line statement of a {% liquid %} tag
        if not (text == name or (text.startswith(name) and not (text[len(name)].isalnum() or text[len(name)] in "_-"))):
            return "line-statement:not-at-the-tag"
        if text.rstrip().endswith("%}"):
            return "line-statement:includes-closing-delimiter"
        if "\n" in text and "'" not in text and '"' not in text:
            return "line-statement:spans-lines"
        return None

    def check_posmap(self, cs: Case, st: Static, posmap: dict[str, Any], out: list) -> None:
        """Every reported location is one the generator wrote, with the same content."""
        a = st.a
        exp_paths: dict[str, dict[tuple, str]] = {}
        exp_filters: dict[str, set[tuple]] = {}
        exp_tags: dict[str, dict[tuple, str]] = {}
        for tname, pm in posmap.items():
            exp_paths[tname] = {(s, e, seg_tuple(segs)): lbl for s, e, segs, lbl in pm["paths"]}
            exp_filters[tname] = {(s, e, n) for s, e, n in pm["filters"]}
            exp_tags[tname] = {(s, e, n): lbl for s, e, n, lbl in pm["tags"]}

        def tkey(name: str) -> str | None:
            if name in posmap:
                return name
            if name == cs.t.name:
                return cs.root
            return None

        for field in ("variables", "globals"):
            for _root, vs in getattr(a, field).items():
                for v in vs:
                    sp = v.span
                    tk = tkey(sp.template_name)
                    if tk is None:
                        continue
                    self.count("posmap_checks")
                    k = (sp.start, sp.end, seg_tuple(v.segments))
                    if k not in exp_paths[tk]:
                        near = [(abs(s - sp.start), lbl) for (s, e, sg), lbl in exp_paths[tk].items()
                                if sg == k[2]]
                        lbl = min(near)[1] if near else "no-such-path"
                        out.append((f"span:Path:{lbl}",
                                    f"{field} entry {list(v.segments)!r} reported at {sp.template_name!r}[{sp.start}:{sp.end}] but the emitter wrote no such path there",
                                    {"template_name": sp.template_name, "start": sp.start, "end": sp.end,
                                     "posmap": True}))
        for name, sps in a.filters.items():
            for sp in sps:
                tk = tkey(sp.template_name)
                if tk is None:
                    continue
                self.count("posmap_checks")
                if (sp.start, sp.end, name) not in exp_filters[tk]:
                    out.append(("span:filter:not-where-written",
                                f"filter {name!r} reported at {sp.template_name!r}[{sp.start}:{sp.end}] but the emitter wrote no such filter there",
                                {"template_name": sp.template_name, "start": sp.start, "end": sp.end,
                                 "posmap": True}))
        for name, sps in a.tags.items():
            for sp in sps:
                tk = tkey(sp.template_name)
                if tk is None:
                    continue
                self.count("posmap_checks")
                ok = (sp.start, sp.end, name) in exp_tags[tk]
                if not ok:
                    # a line statement's span may run on over the blanks that end its line
                    src = cs.source_named(sp.template_name) or ""
                    e2 = sp.end
                    while e2 > sp.start and src[e2 - 1:e2] in (" ", "\t"):
                        e2 -= 1
                    ok = (sp.start, e2, name) in exp_tags[tk] and exp_tags[tk][(sp.start, e2, name)].startswith("liquid-")
                if not ok:
                    near = [(abs(s - sp.start), lbl) for (s, e, n), lbl in exp_tags[tk].items() if n == name]
                    lbl = min(near)[1] if near else "no-such-tag"
                    out.append((f"span:tag:{lbl}",
                                f"tag {name!r} reported at {sp.template_name!r}[{sp.start}:{sp.end}] but the emitter wrote that tag elsewhere",
                                {"template_name": sp.template_name, "start": sp.start, "end": sp.end,
                                 "posmap": True}))

    # ------------------------------------------------------------ async + helpers
    def check_async_and_helpers(self, cs: Case, a: Any, out: list) -> None:
        from liquid2.exceptions import LiquidError

        inc = not cs.dynamic
        t = cs.t
        self.count("analysis_pairs")
        try:
            a2 = run_async(t.analyze_async(include_partials=inc))
        except Exception as e:  # noqa: BLE001 -- the sync analysis of the same template succeeded
            out.append((f"analyze-async:raised:{type(e).__name__}",
                        f"analyze() succeeded, analyze_async() raised {type(e).__name__}: {e}", {}))
            return
        c1, c2 = canon(a), canon(a2)
        if c1 != c2:
            def src_id(n: str) -> Any:
                s = cs.source_named(n)
                return ("src", s) if s is not None else ("name", n)

            if canon_by_source(c1, src_id) == canon_by_source(c2, src_id):
                out.append(("analyze-async:template-name-differs",
                            "analyze_async() equals analyze() except for the template names in the spans",
                            {"sync_names": sorted({n for f in ("variables",) for _, vs in c1[f] for _, n, _, _ in vs}),
                             "async_names": sorted({n for f in ("variables",) for _, vs in c2[f] for _, n, _, _ in vs})}))
            else:
                diff = [f for f in ("globals", "variables", "filters", "tags", "locals") if c1[f] != c2[f]]
                kinds: dict[str, str] = {}
                for what in diff:
                    f1 = {k: v for k, v in c1[what]}
                    f2 = {k: v for k, v in c2[what]}
                    strip = (lambda x: x[:1] + x[2:]) if what in ("variables", "globals", "locals") else (lambda x: x[1:])
                    if set(f1) == set(f2) and all(sorted(map(repr, f1[k])) == sorted(map(repr, f2[k])) for k in f1):
                        kinds[what] = "order-differs"
                    elif [(k, [strip(x) for x in v]) for k, v in c1[what]] == [(k, [strip(x) for x in v]) for k, v in c2[what]]:
                        kinds[what] = "template-names-differ"
                    else:
                        kinds[what] = "differ"
                # one key: content before naming before order; globals first (soundness)
                what = next((w for k in ("differ", "template-names-differ", "order-differs")
                             for w in diff if kinds[w] == k))
                missing = sorted(set(k for k, _ in c1[what]) - set(k for k, _ in c2[what]))
                extra = sorted(set(k for k, _ in c2[what]) - set(k for k, _ in c1[what]))
                out.append((f"analyze-async:{what}-{kinds[what]}",
                            f"analyze_async() != analyze(): {kinds}"
                            + (f"; async lacks {what} {missing}" if missing else "")
                            + (f"; async adds {what} {extra}" if extra else ""),
                            {"sync": c1[what][:6], "async": c2[what][:6]}))

        # helper methods
        def flat(d: Any) -> list[Any]:
            return [v for vs in d.values() for v in vs]

        expect = {
            "variables": {str(k) for k in a.variables},
            "variable_paths": {str(v) for v in flat(a.variables)},
            "variable_segments": {seg_tuple(v.segments) for v in flat(a.variables)},
            "global_variables": {str(k) for k in a.globals},
            "global_variable_paths": {str(v) for v in flat(a.globals)},
            "global_variable_segments": {seg_tuple(v.segments) for v in flat(a.globals)},
            "filter_names": set(a.filters),
            "tag_names": set(a.tags),
        }
        for meth, exp in expect.items():
            for suffix in ("", "_async"):
                self.count("helper_calls")
                try:
                    if suffix:
                        got = run_async(getattr(t, meth + suffix)(include_partials=inc))
                    else:
                        got = getattr(t, meth)(include_partials=inc)
                except Exception as e:  # noqa: BLE001
                    out.append((f"helper:{meth}{suffix}:raised",
                                f"{meth}{suffix}() raised {type(e).__name__} where analyze() succeeded", {}))
                    continue
                gl = [seg_tuple(g) if meth.endswith("segments") else g for g in got]
                if set(gl) != exp:
                    out.append((f"helper:{meth}{suffix}:differs-from-analyze",
                                f"{meth}{suffix}() lacks {sorted(map(repr, exp - set(gl)))[:8]} and adds "
                                f"{sorted(map(repr, set(gl) - exp))[:8]} with respect to analyze()",
                                {"method": meth + suffix}))
                elif len(gl) != len(set(gl)):
                    out.append((f"helper:{meth}{suffix}:duplicates",
                                f"{meth}{suffix}() returns duplicates: {sorted(map(repr, gl))[:12]}",
                                {"method": meth + suffix}))


    # ------------------------------------------------------- naming the mechanism
    def _reported(self, cs: Case, st: Static) -> set[tuple]:
        key = id(st)
        if getattr(self, "_rep_key", None) != key:
            rep: set[tuple] = set()
            for (nm, a0, b0) in st.var_at:
                rep.add((cs.source_named(nm), a0, b0))
            for (nm, a0, b0, _n) in st.filter_at:
                rep.add((cs.source_named(nm), a0, b0))
            for (nm, a0, b0, _n) in st.tag_at:
                rep.add((cs.source_named(nm), a0, b0))
            self._rep = rep
            self._rep_key = key
            self._has_memo: dict[int, bool] = {}
            self._keep = st
        return self._rep

    def has_reported(self, o: Any, rep: set[tuple], budget: list[int]) -> bool:
        """Does analyze() report anything located in the subtree of *o*?"""
        memo = self._has_memo
        i = id(o)
        if i in memo:
            return memo[i]
        memo[i] = False  # cycle guard
        budget[0] -= 1
        if budget[0] < 0:
            memo[i] = True  # do not blame what was not examined
            return True
        tok = getattr(o, "token", None)
        res = False
        tn = type(o).__name__
        if tok is not None and tn in ("Path", "Filter") and \
                (getattr(tok, "source", None), getattr(tok, "start", None), getattr(tok, "stop", None)) in rep:
            res = True
        elif tok is not None and type(tok).__name__ in ("TagToken", "LinesToken") and \
                _node_name(o) not in ("BlockNode", "ConditionalBlockNode", "MultiExpressionBlockNode") and \
                hasattr(o, "render_to_output") and (tok.source, tok.start, tok.stop) in rep:
            res = True
        if not res:
            for _a, v in _children_of(o):
                if _is_l2(v) and self.has_reported(v, rep, budget):
                    res = True
                    break
        memo[i] = res
        return res

    def blame(self, cs: Case, st: Static, stack: tuple, token: Any, want: str | None,
              here_src: Any = None) -> str | None:
        """The first link, from the outermost rendering node down to the object owning
        *token*, that leads into a subtree of which analyze() reports nothing."""
        rep = self._reported(cs, st)
        budget = [60000]
        if not stack:
            return None
        inner = stack[-1]
        # a whole template of which analyze() reports nothing: blame the node that loads it
        reported_srcs = getattr(self, "_rep_srcs", None)
        if reported_srcs is None or getattr(self, "_rep_srcs_key", None) is not rep:
            reported_srcs = {r[0] for r in rep}
            self._rep_srcs, self._rep_srcs_key = reported_srcs, rep
        here = here_src if here_src is not None else next(
            (getattr(getattr(n, "token", None), "source", None) for n in reversed(stack) if n is not None), None)
        if here is not None and here not in reported_srcs and getattr(self, "_only_src", None) is None:
            for n in reversed(stack):
                s2 = getattr(getattr(n, "token", None), "source", None)
                if n is not None and s2 is not None and s2 != here:
                    return _node_name(n) + ".children:partial-not-analysed"
        only_src = getattr(self, "_only_src", None)
        for i, node in enumerate(stack[:-1]):
            if only_src is not None and getattr(getattr(node, "token", None), "source", None) != only_src:
                continue  # a template that was deliberately not analysed (dynamic partial name)
            if not self.has_reported(node, rep, budget):
                return (_node_name(stack[i - 1]) if i else "<template>") + ".children"
        if want is None:
            return None
        if want == "Filter":
            # filters are reported through another channel than variables: name the place
            links = locate(inner, token, want)
            named = [f"{type(o).__name__}.{a}" for o, a, _v in links if not hasattr(o, "render_to_output")]
            return ">".join(named[-2:]) or None
        if not self.has_reported(inner, rep, budget):
            tok = getattr(inner, "token", None)
            if len(stack) > 1 and not (tok is not None and (getattr(tok, "source", None), getattr(tok, "start", None),
                                                            getattr(tok, "stop", None)) in rep):
                return _node_name(stack[-2]) + ".children|" + _node_name(inner) + ".expressions"
            return _node_name(inner) + ".expressions"
        links = locate(inner, token, want)
        for owner, attr, val in links:
            if not self.has_reported(val, rep, budget):
                return f"{type(owner).__name__}.{attr}"
        if links:
            return ">".join(f"{type(o).__name__}.{a}" for o, a, _v in links[-2:])
        return None

    # ---------------------------------------------------------------- runtime
    def check_runtime(self, cs: Case, st: Static, binders: set[str], out: list,
                      root_only: bool) -> dict[str, int]:
        rec = self.rec
        n = {"lookups": 0, "filters": 0, "tags": 0, "globals": 0, "resolves": 0}
        root_src = cs.root_src
        self._rep_key = None  # objects of the previous render are gone: forget what was memoised
        # a partial whose loader name equals the root's Template.name (root 'pages/index' is named
        # 'index'): analyze() takes it for the root and skips it -- a mechanism of its own
        clash_src = cs.templates.get(cs.t.name) if cs.t.name != cs.root else None
        CL = "partial-named-like-the-root-template"
        self._only_src = root_src if root_only else None

        def names(src: Any) -> list[str]:
            return cs.names_of.get(src, [])

        for (src, start, stop), (path, node, stack, tok) in rec.lookups.items():
            if root_only and src != root_src:
                continue
            n["lookups"] += 1
            self.case_exec.add((src, start, stop))
            ok = False
            for nm in names(src):
                for segs in st.var_at.get((nm, start, stop), ()):
                    if covers(segs, path):
                        ok = True
                        break
                if ok:
                    break
            if not ok:
                tn = names(src)
                text = src[start:stop] if isinstance(src, str) and 0 <= start <= stop <= len(src) else None
                near = [segs for nm in tn for segs in st.var_at.get((nm, start, stop), ())]
                overl = [k for k, sl in st.var_at.items()
                         if k[0] in tn and k[1] < stop and start < k[2] and any(covers(sg, path) for sg in sl)]
                if overl:
                    where = "span-mismatch"  # the variable is reported, at another place
                    near = [(k[1], k[2]) for k in overl]
                elif src == clash_src:
                    where = CL
                else:
                    where = self.blame(cs, st, stack, tok, "Path") or node
                out.append((f"vars:missing@{where}",
                            f"the render looked up {_short_path(path)} at {tn}[{start}:{stop}] = {text!r} "
                            f"but analyze().variables has no such entry there"
                            + (f" (entries at that span: {near!r})" if near else ""),
                            {"template": tn, "start": start, "stop": stop, "text": text}))
        for root, node in rec.tokenless.items():
            n["lookups"] += 1
            if root not in st.variable_names:
                out.append((f"vars:missing@{node}:tokenless",
                            f"the render looked up {root!r} (no token) but analyze().variables has no {root!r}",
                            {"root": root}))
        bound = binders | rec.bound_names()
        unreported_message_vars: set[str] = set()
        for (name, owner), info in rec.resolves.items():
            if root_only and info.get("source") != root_src:
                continue
            n["resolves"] += 1
            if name in IMPLICIT_CONFIG_NAMES:
                continue  # decided by the globals check below
            tn = names(info.get("source"))
            ok = False
            for nm in tn:
                for (s, e) in st.var_roots_by_t.get(nm, {}).get(name, ()):
                    if info["start"] is None or (info["start"] <= s and e <= (info["stop"] or 10**9)):
                        ok = True
            if not ok:
                unreported_message_vars.add(name)
                out.append((f"vars:missing@resolve:{owner}",
                            f"{owner} looked up {name!r} with context.resolve(); the name reached the global "
                            f"namespace but analyze().variables has no {name!r} inside that markup",
                            {"name": name, "owner": owner, "template": tn}))
        for (src, start, stop, name), (node, stack, tok) in rec.filters.items():
            if root_only and src != root_src:
                continue
            n["filters"] += 1
            if not any((nm, start, stop, name) in st.filter_at for nm in names(src)):
                where = CL if src == clash_src else (self.blame(cs, st, stack, tok, "Filter") or node)
                out.append((f"filters:missing@{where}",
                            f"the render applied filter {name!r} at {names(src)}[{start}:{stop}] but "
                            f"analyze().filters has no such entry",
                            {"filter": name, "template": names(src), "start": start, "stop": stop}))
        for (src, start, stop, name), (node, stack) in rec.tags.items():
            if root_only and src != root_src:
                continue
            n["tags"] += 1
            if not any((nm, start, stop, name) in st.tag_at for nm in names(src)):
                up = CL if src == clash_src else self.blame(cs, st, stack + (None,), None, None, here_src=src)
                out.append((f"tags:missing@{up}" if up else f"tags:missing:{name}",
                            f"the render executed tag {name!r} ({node}) at {names(src)}[{start}:{stop}] but "
                            f"analyze().tags has no such entry",
                            {"tag": name, "template": names(src), "start": start, "stop": stop}))
        for name, info in rec.global_hits.items():
            loc = info.get("loc")
            if root_only and (loc is None or loc[0] != root_src):
                continue
            if name in bound:
                self.count("globals_excluded_bound_somewhere")
                continue
            n["globals"] += 1
            if name in st.global_names or name in unreported_message_vars:
                continue
            if info["via"] == "resolve":
                kind = ("implicit-config" if name in IMPLICIT_CONFIG_NAMES else "message-variable") + f"@{info['owner']}"
            elif loc is not None and loc[0] == clash_src:
                kind = CL
            elif name not in st.variable_names:
                kind = "unreported-variable"
            elif name in cs.root_matter:
                kind = "matter-name-treated-as-bound"  # loader matter is global data, nothing binds it
            elif name in {t.split(".", 1)[0] for t in cs.templates} - \
                    {t.rsplit("/", 1)[-1].split(".")[0] for t in cs.templates}:
                kind = "default-alias-derived-from-literal-name"
            else:
                kind = f"scoped-by:{info['scope_node']}"
            where = ""
            if loc is not None:
                where = f" at {names(loc[0])}[{loc[1]}:{loc[2]}]"
            out.append((f"globals:missing:{kind}",
                        f"{name!r} reached the global namespace{where} (via {info['via']}, in {info['node']}), "
                        f"no template of the set binds it, yet analyze().globals does not list it",
                        {"name": name, "via": info["via"], "node": info["node"]}))
        # ---- diagnostic, not part of the property's clause: the name IS bound somewhere in the
        # set, yet this lookup was served by the global namespace while analyze() treats the
        # occurrence as in scope (reports the variable there, not as a global)
        for (src, start, stop), (name, node, scope_node) in rec.global_locs.items():
            if (root_only and src != root_src) or name not in bound:
                continue
            tn = names(src)
            if any((nm, start, stop) in st.var_at for nm in tn) and \
                    not any((nm, start, stop) in st.global_at for nm in tn):
                self.diag.append({"name": name, "template": tn, "start": start, "stop": stop,
                                  "text": src[start:stop], "node": node, "scope_node": scope_node, "via": "get"})
        for (name, owner), info in rec.resolves.items():
            if (root_only and info.get("source") != root_src) or name not in bound or name in IMPLICIT_CONFIG_NAMES:
                continue
            tn = names(info.get("source"))
            lo, hi = info["start"] or 0, info["stop"] or 10**9
            in_vars = any(lo <= s0 and e0 <= hi for nm in tn for (s0, e0) in st.var_roots_by_t.get(nm, {}).get(name, ()))
            in_glob = any(lo <= s0 and e0 <= hi for nm in tn for (s0, e0) in st.global_roots_by_t.get(nm, {}).get(name, ()))
            if in_vars and not in_glob:
                self.diag.append({"name": name, "template": tn, "start": info["start"], "stop": info["stop"],
                                  "text": name, "node": owner, "scope_node": owner, "via": "resolve"})
        return n


def _short_path(path: list[object]) -> str:
    out = []
    for p in path:
        r = repr(p)
        out.append(r if len(r) <= 30 else r[:27] + "...")
    return "[" + ", ".join(out) + "]"


# ------------------------------------------------------------------------ whole case


def run_case(chk: Checker, case: dict[str, Any], only: str | None = None) -> list[tuple[str, str, dict[str, Any]]] | None:
    """_run_case, and the scratch directory of a file-system case is always removed."""
    global ACTIVE  # noqa: PLW0603
    holder: list[Case] = []
    try:
        return _run_case(chk, case, only, holder)
    finally:
        ACTIVE = None
        for cs in holder:
            cs.close()


def _run_case(chk: Checker, case: dict[str, Any], only: str | None, holder: list[Case]) -> list[tuple[str, str, dict[str, Any]]] | None:
    """Execute the oracle on one case.  None = the case is not a valid program of the
    workload (does not parse / references a template outside the set).  *only* (a
    violation key) restricts the run to the parts that can produce that key (used while
    minimising a witness)."""
    want_spans = only is None or only.startswith("span:")
    want_async = only is None or only.startswith(("analyze-async:", "helper:"))
    want_runtime = only is None or only.startswith(("vars:", "globals:", "filters:", "tags:"))
    global ACTIVE  # noqa: PLW0603
    from liquid2.exceptions import LiquidError
    from liquid2.exceptions import TemplateNotFoundError

    install()
    ctx = chk.ctx if chk.record else None
    try:
        cs = Case(case)
        holder.append(cs)
        for src0 in list(cs.templates.values()) + list((case.get("decoys") or {}).values()):
            cs.env.from_string(src0)
    except LiquidError as e:
        chk.count("cases_rejected:do-not-parse")
        if ctx is not None:
            ctx.note(f"case rejected ({case.get('loader')}): {type(e).__name__}: {str(e)[:200]}")
        return None
    except KeyError as e:
        chk.count("cases_rejected:cannot-build")
        if ctx is not None:
            ctx.note(f"case rejected ({case.get('loader')}): KeyError: {e} <- {e.__cause__!r} {e.__context__!r}")
        return None
    out: list[tuple[str, str, dict[str, Any]]] = []
    inc = not cs.dynamic
    try:
        a = cs.t.analyze(include_partials=inc)
    except TemplateNotFoundError as e:
        missing = str(e).split("\n")[0].strip()
        if missing not in cs.templates and missing.removeprefix(ROUTE_PREFIX) not in cs.templates:
            chk.count("cases_rejected:template-outside-the-set")
            return None
        return [(f"analyze:raised:{type(e).__name__}", f"analyze() raised {type(e).__name__}: {e}", {})]
    except LiquidError as e:
        return [(f"analyze:raised:{type(e).__name__}", f"analyze() raised {type(e).__name__}: {e}", {})]
    if ctx is not None:
        ctx.ev()
    st = Static(a)
    if want_spans:
        chk.check_spans(cs, st, out)
    if want_spans and case.get("posmap"):
        flagged = {(d.get("template_name"), d.get("start"), d.get("end")) for _k, _w, d in out}
        more: list[tuple[str, str, dict[str, Any]]] = []
        chk.check_posmap(cs, st, case["posmap"], more)
        out += [m for m in more if (m[2].get("template_name"), m[2].get("start"), m[2].get("end")) not in flagged]
    if want_async:
        chk.check_async_and_helpers(cs, a, out)
        chk.count("analysis_pairs:" + cs.loader_kind)
        if cs.root_matter:
            chk.count("analysis_pairs:root-with-matter")
    binders = set(case.get("binders") or ())
    rec = chk.rec
    chk.case_exec = set()
    chk.diag = []
    for i, data in enumerate((case.get("datasets") or []) if want_runtime else []):
        mode = "async" if i % 3 == 2 else "sync"
        if case.get("modes"):
            mode = case["modes"][i % len(case["modes"])]
        rec.reset()
        # global chain of the render: render args {} > matter (overlay_data) > template globals;
        # both lower layers record, so a lookup answered by matter is a global-namespace fact too
        cs.t.overlay_data = RecordingMapping(cs.root_matter, rec, matter=True)
        cs.t.global_data = RecordingMapping(data, rec)
        ACTIVE = rec
        status = "ok"
        try:
            if mode == "async":
                run_async(cs.t.render_async())
            else:
                cs.t.render()
        except LiquidError as e:
            status = "liquid-error"
            chk.seen("render_error_classes", type(e).__name__)
        except RecursionError:
            status = "recursion-error"
        except Exception as e:  # noqa: BLE001 -- C02's subject, not this property's
            status = "non-liquid-error"
            chk.seen("render_error_classes", "non-liquid:" + type(e).__name__)
        finally:
            ACTIVE = None
        n = chk.check_runtime(cs, st, binders, out, root_only=cs.dynamic)
        if ctx is not None:
            ctx.ev()
            ctx.count(f"renders:{status}")
            ctx.count(f"renders:{mode}")
            facts = n["lookups"] + n["filters"] + n["tags"] + n["globals"] + n["resolves"]
            ctx.count("runtime_facts_checked", facts)
            ctx.count("facts:lookups", n["lookups"])
            ctx.count("facts:filters", n["filters"])
            ctx.count("facts:tags", n["tags"])
            ctx.count("facts:global_names", n["globals"])
            ctx.count("facts:resolve_lookups", n["resolves"])
            ctx.count("hook:get_calls", rec.n_get)
            ctx.count("hook:resolve_calls", rec.n_resolve)
            ctx.count("hook:filter_calls", rec.n_filter)
            ctx.count("hook:node_renders", rec.n_node)
            ctx.count("hook:global_layer_hits", rec.n_global)
            ctx.count("hook:matter_layer_answers", rec.n_matter_hits)
            for (_s, _a, _b, name) in rec.tags:
                ctx.seen("tags_executed", name)
            for (_s, _a, _b, name) in rec.filters:
                ctx.seen("filters_applied", name)
            for node, _st in rec.tags.values():
                ctx.seen("node_classes", node)
            if n["lookups"] and n["filters"] and n["tags"]:
                ctx.nt(sorted(cs.templates.items()), repr(data), mode)
    dseen: set[tuple] = set()
    for dg in chk.diag:
        k = (dg["template"][0] if dg["template"] else None, dg["start"], dg["name"])
        if k in dseen:
            continue
        dseen.add(k)
        if SCOPE_MISMATCH_IS_VIOLATION:
            out.append((f"globals:bound-elsewhere:{dg['scope_node']}",
                        f"{dg['name']!r} at {dg['template']}[{dg['start']}:{dg['stop']}] was served by the global "
                        f"namespace (in {dg['node']}) but analyze() treats that occurrence as bound",
                        {"name": dg["name"], "template": dg["template"], "start": dg["start"]}))
        elif ctx is not None:
            ctx.count("diag:served-by-globals-but-statically-bound")
            ctx.count(f"diag:served-by-globals-but-statically-bound@{dg['scope_node']}")
    if ctx is not None and case.get("posmap") and case.get("datasets"):
        for tname, pm in case["posmap"].items():
            src = cs.templates.get(tname)
            for a0, b0, _sg, _lb in pm["paths"]:
                ctx.count("written_paths")
                if (src, a0, b0) in chk.case_exec:
                    ctx.count("written_paths_executed")
    mech = case.get("mechanism")
    if mech:
        # a hand probe of ONE named mechanism: its runtime-fact violations carry that name
        def rekey(k: str) -> str:
            if "implicit-config" in k or "@resolve:" in k:
                return k
            for pre in ("vars:missing@", "filters:missing@", "tags:missing@", "tags:missing:", "globals:missing:"):
                if k.startswith(pre):
                    return pre.replace("tags:missing:", "tags:missing@") + mech
            return k

        out = [(rekey(k), w, d) for k, w, d in out]
    # one report per (key, location)
    seen: set[tuple] = set()
    uniq = []
    for key, what, det in out:
        k = (key, det.get("template_name") or str(det.get("template")), det.get("start"), det.get("name"),
             det.get("method"))
        if k in seen:
            continue
        seen.add(k)
        uniq.append((key, what, det))
    return uniq
