"""C19 unit: sort / sort_natural / sort_numeric / reverse.

Documentation used: filter_reference.md sort ("a copy of the input array with its
elements sorted"; optional key = property name), sort_natural ("compared by their string
representations, forced to lowercase"), sort_numeric ("sorted by any integers and/or
floats found in the string representation of each item"; items without numeric characters
"pushed to the end ... in the same order"), reverse ("a copy ... in reverse order. If the
filter input is a string, reverse will return the string unchanged").  CTS: "sort, array
of objects with missing key" (missing keys last), "sort, lambda, all missing" (ties keep
input order), "sort, incompatible types" (error), sort of a string / a number.
"""

from __future__ import annotations

import random
import re
from typing import Any

from .c19_lib import MISSING
from .c19_lib import TRICKY_WORDS
from .c19_lib import effective
from .c19_lib import g_float
from .c19_lib import g_int
from .c19_lib import g_list
from .c19_lib import g_text
from .c19_lib import g_word
from .c19_lib import hget
from .c19_lib import is_num
from .c19_lib import jn
from .c19_lib import lam_path
from .c19_lib import lstr
from .c19_lib import nest
from .c19_lib import skey
from .c19_run import Runner
from .c19_run import unit


def _version(rng: random.Random) -> str:
    c = rng.random()
    if c < 0.3:
        return "0" * rng.randint(0, 3) + str(rng.randint(0, 300))
    if c < 0.4:
        return "-" + str(rng.randint(1, 50))
    parts = [str(rng.randint(0, 12)) for _ in range(rng.randint(2, 3))]
    return rng.choice(("v", "", "rel")) + ".".join(parts) + (".0" if len(parts) == 2 else "")


def gen_sort(rng: random.Random, i: int) -> dict[str, Any]:
    m = rng.random()
    ps = rng.randrange(10**6)
    if m < 0.18:
        pool = [g_int(rng) for _ in range(3)] + [g_float(rng) for _ in range(2)] + [1, 1.0, 2, 2.0, 0, -1]
        return {"mode": "numbers", "x": nest(rng, g_list(rng, pool, 0, 8), 0.25), "pseed": ps}
    if m < 0.34:
        pool = [g_text(rng, 0, 4) for _ in range(4)] + ["a", "B", "b", "A", "Sally Snake", "zebra", "", "é"]
        if rng.random() < 0.4:
            pool = rng.sample(TRICKY_WORDS, 6) + ["a", "B"]
        return {"mode": "strings", "x": g_list(rng, pool, 0, 8), "pseed": ps}
    if m < 0.42:
        pool = [1, "a", None, [], {}, 2.5, True, "4", {"k": 1}, [2]]
        return {"mode": "mixed", "x": g_list(rng, pool, 0, 6), "pseed": ps}
    if m < 0.52:
        pool = [g_word(rng) for _ in range(4)] + [rng.randint(0, 2000) for _ in range(3)] + ["b", "B", "a", "A"]
        if rng.random() < 0.5:
            pool = rng.sample(TRICKY_WORDS, 6) + [g_word(rng), "b", "B"]
        return {"mode": "natural", "x": g_list(rng, pool, 0, 8), "pseed": ps}
    if m < 0.64:
        pool = ([_version(rng) for _ in range(4)] + [rng.randint(-5, 300) for _ in range(2)]
                + [g_word(rng) for _ in range(2)] + [g_float(rng)])
        return {"mode": "numeric", "x": g_list(rng, pool, 0, 8), "pseed": ps}
    if m < 0.72:
        c = rng.random()
        if c < 0.45:
            x: Any = g_text(rng, 0, 6)
        elif c < 0.6:
            x = rng.choice((123, 0, 1.5, g_int(rng), {"a": 1}))
        else:
            pool = [1, "a", None, [], {}, 2.5, True, "4", {"k": 1}, "a", 1]
            x = nest(rng, g_list(rng, pool, 0, 7), 0.4)
        return {"mode": "reverse", "x": x, "pseed": ps}
    # arrays of hashes sorted by a property
    k = rng.choice(("k", "title", "a b"))
    kind = rng.choice(("strings", "numbers", "natural", "numeric"))
    if kind == "strings":
        vals: list[Any] = [g_word(rng) for _ in range(3)] + ["a", "B", "b", ""]
    elif kind == "numbers":
        vals = [g_int(rng) for _ in range(2)] + [g_float(rng), 1, 1.0, 2, 0]
    elif kind == "natural":
        vals = [g_word(rng) for _ in range(3)] + [rng.randint(0, 2000), "b", "B"]
        if rng.random() < 0.5:
            vals = rng.sample(TRICKY_WORDS, 5) + [g_word(rng)]
    else:
        vals = [_version(rng) for _ in range(3)] + [rng.randint(0, 99), g_word(rng)]
    x = []
    for j in range(rng.randint(0, 7)):
        h: dict[Any, Any] = {"id": j % 3}
        if rng.random() < 0.75:
            h[k] = rng.choice(vals)
        if rng.random() < 0.15:
            h[7] = "x"
        x.append(h)
    return {"mode": "key-" + kind, "x": x, "k": k, "pseed": ps}


# -- reference sort keys -----------------------------------------------------

RE_DIGITS = re.compile(r"-?\d+")


def key_plain(v: Any) -> Any:
    return v


def key_natural(v: Any) -> Any:
    return lstr(v).lower()


def key_numeric(v: Any) -> Any:
    """(0, numbers...) for items with numbers, (1,) for the rest (kept last)."""
    if is_num(v):
        return (0, (v,))
    ints = tuple(int(n) for n in RE_DIGITS.findall(lstr(v)))
    return (0, ints) if ints else (1, ())


def _check_sorted(R: Runner, f: str, res: Any, Es: list[list[Any]], keyf: Any, getk: Any,
                  missing_last: bool, q: str = "") -> None:
    """res.value must be, for one admissible view E of the input: a permutation of E
    (strict), ordered by keyf(getk(e)) with items lacking the property last, ties in
    input order."""
    if not res.ok:
        return
    out = res.value
    if not isinstance(out, list):
        R.law(f, "permutation", False, "not-an-array", {"got": out})
        return
    problems = []
    for E in Es:
        jE = [jn(e) for e in E]
        p = None
        if sorted(map(repr, map(skey, out))) != sorted(map(repr, map(skey, jE))):
            p = ("permutation", {"input": jE, "got": out})
        else:
            def rank(e: Any) -> Any:
                kv = getk(e)
                if kv is MISSING:
                    return (1, None)
                return (0, keyf(kv))

            ranks = [rank(e) for e in out]
            bad = None
            for a, b in zip(ranks, ranks[1:]):
                if a[0] > b[0] or (a[0] == b[0] == 0 and b[1] < a[1]):
                    bad = ("ordered" if a[0] == b[0] else "missing-key-last", {"got": out})
                    break
            if bad is None:
                # stability: elements with equal rank keep their input order
                want = sorted(jE, key=_cmp_key(rank))
                if skey(want) != skey(out):
                    bad = ("stable", {"want": want, "got": out})
            p = bad
        if p is None:
            problems = []
            break
        problems.append(p)
    names = ("permutation", "ordered", "missing-key-last", "stable")
    first = problems[0] if problems else None
    for nm in names:
        if nm == "missing-key-last" and not missing_last:
            continue
        R.law(f, nm, not (first and first[0] == nm), q, first[1] if first and first[0] == nm else None)


def _cmp_key(rank: Any):  # noqa: ANN202
    import functools

    def cmp(a: Any, b: Any) -> int:
        ra, rb = rank(a), rank(b)
        if ra[0] != rb[0]:
            return -1 if ra[0] < rb[0] else 1
        if ra[0] == 1:
            return 0
        return -1 if ra[1] < rb[1] else (1 if rb[1] < ra[1] else 0)

    return functools.cmp_to_key(cmp)


def _perm_check(R: Runner, f: str, a: Any, b: Any, keyf: Any, getk: Any) -> None:
    """sorting a permutation of the input gives the same multiset and the same key sequence."""
    if a.ok and b.ok and isinstance(a.value, list) and isinstance(b.value, list):
        same_ms = sorted(map(repr, map(skey, a.value))) == sorted(map(repr, map(skey, b.value)))

        def ks(v: list[Any]) -> Any:
            try:
                return [("m",) if getk(e) is MISSING else ("k", keyf(getk(e))) for e in v]
            except Exception:  # noqa: BLE001
                return None

        R.law(f, "order-independent", same_ms and ks(a.value) == ks(b.value), "",
              {"input": a.value, "permuted": b.value})
    elif a.kind != "foreign" and b.kind != "foreign":
        R.law(f, "order-independent", a.kind == b.kind, "fails-for-one-order",
              {"input": a.brief(), "permuted": b.brief()})


def _shuffled(x: list[Any], seed: int) -> list[Any]:
    y = list(x)
    random.Random(seed).shuffle(y)
    return y


@unit("sort", ("sort", "sort_natural", "sort_numeric", "reverse"), gen_sort)
def case_sort(R: Runner, inp: dict[str, Any]) -> None:
    mode, x, ps = inp["mode"], inp["x"], inp["pseed"]
    ident = lambda e: e  # noqa: E731
    if mode in ("numbers", "strings"):
        Es = effective(x)
        s = R.both("sort", x)
        R.expect_ok("sort", "total-on-homogeneous-input", s, mode)
        _check_sorted(R, "sort", s, Es, key_plain, ident, False, mode)
        _perm_check(R, "sort", s, R.both("sort", _shuffled(x, ps)), key_plain, ident)
        # a second application changes nothing
        s2 = R.T("sort", "sort | sort", x=x)
        if s.ok and s2.ok:
            R.law("sort", "idempotent", skey(s.value) == skey(s2.value), mode, {"once": s.value, "twice": s2.value})
        if mode == "strings":
            n = R.both("sort_natural", x)
            R.expect_ok("sort_natural", "total-on-strings", n)
            _check_sorted(R, "sort_natural", n, Es, key_natural, ident, False)
        else:
            n = R.both("sort_numeric", x)
            R.expect_ok("sort_numeric", "total-on-numbers", n)
            _check_sorted(R, "sort_numeric", n, Es, key_numeric, ident, False, "numbers")
        _reverse(R, x)
    elif mode == "mixed":
        # incomparable types: a LiquidError is allowed, a result must still be a permutation
        s = R.both("sort", x, cls="mixed-types")
        if s.ok and isinstance(s.value, list):
            ok = any(sorted(map(repr, map(skey, s.value))) == sorted(repr(skey(jn(e))) for e in E)
                     for E in effective(x))
            R.law("sort", "permutation", ok, "mixed-types", {"input": jn(x), "got": s.value})
        R.both("sort_natural", x, cls="mixed-types")
        R.both("sort_numeric", x, cls="mixed-types")
        _reverse(R, x)
    elif mode == "natural":
        Es = effective(x)
        n = R.both("sort_natural", x)
        R.expect_ok("sort_natural", "total-on-strings", n)
        _check_sorted(R, "sort_natural", n, Es, key_natural, ident, False)
        _perm_check(R, "sort_natural", n, R.both("sort_natural", _shuffled(x, ps)), key_natural, ident)
        _reverse(R, x)
    elif mode == "numeric":
        Es = effective(x)
        n = R.both("sort_numeric", x)
        R.expect_ok("sort_numeric", "total-on-documented-items", n)
        _check_sorted(R, "sort_numeric", n, Es, key_numeric, ident, False)
        _perm_check(R, "sort_numeric", n, R.both("sort_numeric", _shuffled(x, ps)), key_numeric, ident)
        _reverse(R, x)
    elif mode == "reverse":
        _reverse(R, x)
        R.both("sort", x, cls="any-input")
    else:
        _by_key(R, mode[4:], x, inp["k"], ps)


def _reverse(R: Runner, x: Any) -> None:
    r = R.both("reverse", x)
    rr = R.T("reverse", "reverse | reverse", x=x)
    if isinstance(x, str):
        # documented: "If the filter input is a string, reverse will return the string unchanged"
        if r.ok:
            R.law("reverse", "string-input-returned-unchanged", lstr(r.value) == x, "",
                  {"want": x, "got": r.value})
        return
    R.expect_ok("reverse", "total", r)
    Es = effective(x)
    if r.ok:
        ok = any(skey(r.value) == skey(jn(E[::-1])) for E in Es)
        R.law("reverse", "reversed-copy", ok, "nested" if len(Es) > 1 else "",
              {"input": jn(x), "got": r.value})
    if rr.ok:
        ok = any(skey(rr.value) == skey(jn(E)) for E in Es)
        R.law("reverse", "involution", ok, "", {"input": jn(x), "twice": rr.value})


def _by_key(R: Runner, kind: str, x: list[Any], k: str, ps: int) -> None:
    getk = lambda e: hget(e, k)  # noqa: E731
    fname, keyf = {
        "strings": ("sort", key_plain), "numbers": ("sort", key_plain),
        "natural": ("sort_natural", key_natural), "numeric": ("sort_numeric", key_numeric),
    }[kind]
    if kind == "numeric":
        # sort_numeric: a missing property has no numeric characters -> last, like any
        # other item without numbers
        def getk(e: Any) -> Any:  # noqa: F811
            v = hget(e, k)
            if v is MISSING or key_numeric(v)[0] == 1:
                return MISSING
            return v

        def keyf(v: Any) -> Any:  # noqa: F811
            return key_numeric(v)[1]
    Es = [list(x)]
    s = R.both(fname, x, k)
    lm = R.T(fname, f"{fname}: i => {lam_path(k)}", x=x)
    R.locals_agree(fname, f"{fname}: i => i[t]", lm, k, "lambda-sees-template-local-variable",
                   sites=("assign", "for", "with"), x=x)
    has_missing = any(hget(e, k) is MISSING for e in x)
    present = sum(1 for e in x if hget(e, k) is not MISSING)
    q = kind + "-values"
    for form, res in (("stringkey", s), ("lambda", lm)):
        if res.kind == "err" and kind == "numbers" and has_missing and present:
            # numbers + items lacking the property: the documentation promises nothing
            # explicit; the property does (ordered permutation for hashes with missing keys)
            R.law(fname, "total-with-missing-keys", False, "numeric-values", {"form": form, "got": res.brief()})
            continue
        R.expect_ok(fname, "total-with-missing-keys" if has_missing else "total-on-hashes", res,
                    f"{q}:{form}")
        _check_sorted(R, fname, res, Es, keyf, getk, True, q if form == "stringkey" else q + ":lambda")
    if s.ok and lm.ok:
        R.law(fname, "form-equivalence", skey(s.value) == skey(lm.value), q,
              {"stringkey": s.value, "lambda": lm.value})
        if R.recording:
            R.ctx.count("lambda_form_comparisons")
    elif s.kind != "foreign" and lm.kind != "foreign":
        R.law(fname, "form-equivalence", s.kind == lm.kind, q + ":one-form-raises",
              {"stringkey": s.brief(), "lambda": lm.brief()})
    _perm_check(R, fname, s, R.both(fname, _shuffled(x, ps), k), keyf, getk)
