"""Shared plumbing: shard context, hashing, tagged JSON, repo import path."""

from __future__ import annotations

import hashlib
import json
import math
import os
import sys
import time
from typing import Any

VERIF_DIR = os.path.dirname(os.path.dirname(os.path.abspath(__file__)))
REPO_DIR = os.environ.get("VERIF_REPO", "/repo")


def use_repo() -> None:
    """Make sure `import liquid2` resolves to the working tree under REPO_DIR."""
    sys.dont_write_bytecode = True
    if sys.path[0] != REPO_DIR:
        sys.path.insert(0, REPO_DIR)
    import liquid2  # noqa: PLC0415

    got = os.path.dirname(os.path.dirname(os.path.abspath(liquid2.__file__)))
    if os.path.realpath(got) != os.path.realpath(REPO_DIR):
        raise RuntimeError(f"liquid2 imported from {got}, expected {REPO_DIR}")


def safe_repr(o: Any) -> str:
    """repr() that cannot trip the interpreter's int -> str digit limit."""
    try:
        return repr(o)
    except ValueError:
        if isinstance(o, int):
            return "int:" + hex(o)
        if isinstance(o, dict):
            return "{" + ", ".join(f"{safe_repr(k)}: {safe_repr(v)}" for k, v in o.items()) + "}"
        if isinstance(o, (list, tuple)):
            return "[" + ", ".join(safe_repr(x) for x in o) + "]"
        return f"<{type(o).__name__}>"


def h64(*parts: object) -> int:
    m = hashlib.blake2b(digest_size=8)
    for p in parts:
        m.update(safe_repr(p).encode("utf-8", "surrogatepass"))
        m.update(b"\x00")
    return int.from_bytes(m.digest(), "big")


def hhex(*parts: object) -> str:
    return f"{h64(*parts):016x}"


# ---------------------------------------------------------------------------
# tagged JSON: expresses floats nan/inf, big ints, tuples, bytes, drops
# ---------------------------------------------------------------------------


def to_tagged(o: Any) -> Any:
    if o is None or isinstance(o, (bool, str)):
        return o
    if isinstance(o, int):
        if abs(o) > 2**53:
            return {"$int": hex(o)}
        return o
    if isinstance(o, float):
        if math.isnan(o) or math.isinf(o):
            return {"$float": repr(o)}
        return o
    if isinstance(o, (list, tuple)):
        r = [to_tagged(x) for x in o]
        return {"$tuple": r} if isinstance(o, tuple) else r
    if isinstance(o, dict):
        if all(isinstance(k, str) and not k.startswith("$") for k in o):
            return {k: to_tagged(v) for k, v in o.items()}
        return {"$dict": [[to_tagged(k), to_tagged(v)] for k, v in o.items()]}
    if isinstance(o, range):
        return {"$range": [o.start, o.stop, o.step]}
    if hasattr(o, "__tagged__"):
        return o.__tagged__()
    return {"$repr": repr(o)}


def from_tagged(o: Any, factories: dict[str, Any] | None = None) -> Any:
    if isinstance(o, list):
        return [from_tagged(x, factories) for x in o]
    if isinstance(o, dict):
        if len(o) == 1:
            ((k, v),) = o.items()
            if k == "$int":
                return int(v, 16) if v.lstrip("-").startswith("0x") else int(v)
            if k == "$float":
                return float(v)
            if k == "$tuple":
                return tuple(from_tagged(x, factories) for x in v)
            if k == "$dict":
                return {
                    _hashable(from_tagged(a, factories)): from_tagged(b, factories)
                    for a, b in v
                }
            if k == "$range":
                return range(*v)
            if k == "$repr":
                return v
            if factories and k in factories:
                return factories[k](from_tagged(v, factories))
        return {k: from_tagged(v, factories) for k, v in o.items()}
    return o


def _hashable(x: Any) -> Any:
    if isinstance(x, list):
        return tuple(_hashable(i) for i in x)
    return x


def short(o: Any, n: int = 400) -> Any:
    """A sample-friendly rendition of o (strings truncated)."""
    if isinstance(o, str):
        return o if len(o) <= n else o[:n] + f"…(+{len(o) - n})"
    if isinstance(o, dict):
        return {str(k): short(v, n) for k, v in list(o.items())[:40]}
    if isinstance(o, (list, tuple)):
        return [short(v, n) for v in list(o)[:40]]
    if isinstance(o, (int, float, bool)) or o is None:
        return to_tagged(o)
    return short(safe_repr(o), n)


# ---------------------------------------------------------------------------
# Shard context
# ---------------------------------------------------------------------------


class CaseBudget(BaseException):
    """Raised by the wall-clock watchdog around ONE generated case.  Never a verdict: the case is
    skipped and counted (a generated program can feed a loop its own growing output and run for
    hours although every render step is correct)."""


class case_budget:  # noqa: N801
    """`with case_budget(90): ...` raises CaseBudget inside the block after that many seconds
    (main thread of a worker process only)."""

    def __init__(self, seconds: int):
        self.seconds = seconds
        self.old = None

    @staticmethod
    def _fire(*_a: object) -> None:
        raise CaseBudget()

    def __enter__(self) -> "case_budget":
        import signal

        self.old = signal.signal(signal.SIGALRM, self._fire)
        signal.alarm(self.seconds)
        return self

    def __exit__(self, *exc: object) -> bool:
        import signal

        signal.alarm(0)
        signal.signal(signal.SIGALRM, self.old)
        return False


class Stop(Exception):
    """Raised when a shard's deadline passes (results so far are kept)."""


class Ctx:
    """Collects what a shard observed."""

    MAX_VIOLATIONS_PER_KEY = 3
    MAX_SAMPLES = 6

    def __init__(self, prop: str, tier: str, seed: int, deadline: float | None = None):
        self.prop = prop
        self.tier = tier
        self.seed = seed
        self.evaluations = 0
        self.nontrivial: set[int] = set()
        self.counters: dict[str, int] = {}
        self.sets: dict[str, set[str]] = {}
        self.samples: list[Any] = []
        self.violations: dict[str, dict[str, Any]] = {}
        self.notes: list[str] = []
        self.deadline = deadline
        self.t0 = time.time()
        self.truncated = False

    # observation -----------------------------------------------------------
    def ev(self, n: int = 1) -> None:
        self.evaluations += n

    def nt(self, *parts: object) -> None:
        self.nontrivial.add(h64(*parts))

    def count(self, name: str, n: int = 1) -> None:
        self.counters[name] = self.counters.get(name, 0) + n

    def mx(self, name: str, v: int) -> None:
        if v > self.counters.get(name, -(2**62)):
            self.counters[name] = v

    def seen(self, setname: str, item: object) -> None:
        self.sets.setdefault(setname, set()).add(str(item))

    def sample(self, s: Any, force: bool = False) -> None:
        if force or len(self.samples) < self.MAX_SAMPLES:
            self.samples.append(short(s))

    def note(self, s: str) -> None:
        if len(self.notes) < 50:
            self.notes.append(s)

    def violation(self, key: str, what: str, witness: dict[str, Any]) -> None:
        """Record a violation with mechanism *key*.  Witness must be replayable."""
        v = self.violations.get(key)
        if v is None:
            self.violations[key] = {
                "key": key,
                "what": what,
                "count": 1,
                "witnesses": [to_tagged(witness)],
            }
        else:
            v["count"] += 1
            if len(v["witnesses"]) < self.MAX_VIOLATIONS_PER_KEY:
                # prefer small witnesses
                v["witnesses"].append(to_tagged(witness))
            else:
                w = to_tagged(witness)
                sz = len(json.dumps(w, default=str))
                big = max(
                    range(len(v["witnesses"])),
                    key=lambda i: len(json.dumps(v["witnesses"][i], default=str)),
                )
                if sz < len(json.dumps(v["witnesses"][big], default=str)):
                    v["witnesses"][big] = w

    def check_deadline(self) -> None:
        if self.deadline is not None and time.time() > self.deadline:
            self.truncated = True
            raise Stop()

    def out(self) -> dict[str, Any]:
        return {
            "prop": self.prop,
            "evaluations": self.evaluations,
            "nontrivial": sorted(self.nontrivial)[:400000],
            "nontrivial_n": len(self.nontrivial),
            "counters": self.counters,
            "sets": {k: sorted(v) for k, v in self.sets.items()},
            "samples": self.samples,
            "violations": list(self.violations.values()),
            "notes": self.notes,
            "truncated": self.truncated,
            "wall_s": time.time() - self.t0,
        }
