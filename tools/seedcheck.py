#!/usr/bin/env python3
"""Evaluate one seeded change: tools/seedcheck.py <seed-id> <patch.diff> <demo.py> <PROP> [PROP...]

Copies /repo to a scratch dir, applies the patch there, confirms (a) the demo passes on the
clean copy and fails with the patch, (b) the repo's own tests pass with the patch, then
runs the named checks' quick tier against the scratch copy (VERIF_REPO).  Writes
seeded/<seed-id>/{patch.diff,demo.py,meta.json} and removes the scratch copy.
"""
import json, os, shutil, subprocess, sys, tempfile, time

VERIF = os.path.dirname(os.path.dirname(os.path.abspath(__file__)))
PY = "/venv/bin/python"


def run(cmd, cwd=None, env=None, timeout=1800):
    e = dict(os.environ)
    e.update(env or {})
    p = subprocess.run(cmd, cwd=cwd, env=e, capture_output=True, text=True, timeout=timeout)
    return p.returncode, p.stdout + p.stderr


def main():
    sid, patch, demo, *props = sys.argv[1:]
    needs = os.environ.get("SEED_NEEDS", "")
    breaks = os.environ.get("SEED_BREAKS", props[0] if props else "")
    tmp = tempfile.mkdtemp(prefix="seedchk-")
    meta = {"seed": sid, "breaks_property": breaks, "needs_to_manifest": needs, "ran": []}
    try:
        clean = os.path.join(tmp, "clean")
        mut = os.path.join(tmp, "mut")
        for d in (clean, mut):
            subprocess.run(["git", "-C", "/repo", "worktree", "add", "-q", "--detach", d, "HEAD"], check=True)
        rc, out = run(["git", "apply", os.path.abspath(patch)], cwd=mut)
        meta["patch_applies_to_repo_head"] = rc == 0
        if rc != 0:
            meta["apply_error"] = out[-500:]
            print("PATCH DOES NOT APPLY", out[-300:])
        else:
            # run the demo from a neutral directory: sys.path[0] is the script's directory
            demo_dir = os.path.join(tmp, "demo")
            os.makedirs(demo_dir, exist_ok=True)
            demo_copy = os.path.join(demo_dir, "demo.py")
            shutil.copy(demo, demo_copy)
            rc_c, out_c = run([PY, "-B", demo_copy], cwd=demo_dir, env={"PYTHONPATH": clean})
            rc_m, out_m = run([PY, "-B", demo_copy], cwd=demo_dir, env={"PYTHONPATH": mut})
            meta["demo_clean_rc"], meta["demo_patched_rc"] = rc_c, rc_m
            meta["demo_patched_tail"] = out_m[-400:]
            rc_t, out_t = run([PY, "-m", "pytest", "-q", "-p", "no:cacheprovider"], cwd=mut, env={"PYTHONPATH": mut})
            meta["repo_tests_with_patch"] = out_t.strip().splitlines()[-1] if out_t.strip() else ""
            meta["repo_tests_rc"] = rc_t
            print(f"demo clean rc={rc_c} patched rc={rc_m}; tests: {meta['repo_tests_with_patch']}")
            for p in props:
                t0 = time.time()
                rc, out = run([PY, "-B", "-m", "vf.run", p, "--tier", os.environ.get("SEED_TIER", "quick")], cwd=VERIF,
                              env={"VERIF_REPO": mut})
                keys = [l[2:].split(": ")[0] for l in out.splitlines() if l.startswith("# ")]
                meta["ran"].append({"check": p, "tier": os.environ.get("SEED_TIER", "quick"), "exit": rc,
                                    "violation_keys": keys[:12], "n_keys": len(keys),
                                    "last_line": out.strip().splitlines()[-1] if out.strip() else "",
                                    "wall_s": round(time.time() - t0, 1)})
                print(f"  {p}: exit={rc} keys={keys[:4]} ({len(keys)})")
        out_dir = os.path.join(VERIF, "seeded", sid)
        os.makedirs(out_dir, exist_ok=True)
        for src, name in ((patch, "patch.diff"), (demo, "demo.py")):
            dst = os.path.join(out_dir, name)
            if os.path.abspath(src) != os.path.abspath(dst):
                shutil.copy(src, dst)
        # merge with earlier results for this seed (other checks / tiers)
        mpath = os.path.join(out_dir, "meta.json")
        if os.path.exists(mpath):
            old = json.load(open(mpath))
            keep = [r for r in old.get("ran", []) if (r["check"], r["tier"]) not in {(x["check"], x["tier"]) for x in meta["ran"]}]
            meta["ran"] = keep + meta["ran"]
            for k in ("needs_to_manifest", "breaks_property"):
                if not os.environ.get("SEED_" + ("NEEDS" if k.startswith("needs") else "BREAKS")) and old.get(k):
                    meta[k] = old[k]
        meta["caught_by"] = sorted({r["check"] for r in meta["ran"] if r["exit"] == 1})
        with open(mpath, "w") as f:
            json.dump(meta, f, indent=1)
    finally:
        for d in ("clean", "mut"):
            subprocess.run(["git", "-C", "/repo", "worktree", "remove", "--force", os.path.join(tmp, d)])
        shutil.rmtree(tmp, ignore_errors=True)


if __name__ == "__main__":
    main()
