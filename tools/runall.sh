#!/bin/bash
# Run the quick (or given) tier of every registered check; print one line each.
tier=${1:-quick}
cd "$(dirname "$0")/.."
for p in $(python3 -c "import json;print(' '.join(c['property_id'] for c in json.load(open('MANIFEST.json'))['checks']))"); do
  out=$(/venv/bin/python -B -m vf.run $p --tier $tier 2>&1); rc=$?
  echo "rc=$rc $(echo "$out" | tail -1)"
  if [ $rc -ne 0 ]; then echo "$out" | grep -v '^KNOWN' | head -20; fi
done
