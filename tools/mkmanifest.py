#!/usr/bin/env python3
"""Regenerate MANIFEST.json from the table below (keeps it valid at all times)."""
import json, os, sys

HERE = os.path.dirname(os.path.dirname(os.path.abspath(__file__)))
PY = "/venv/bin/python -B -m vf.run"

CHECKS = {
    "C02": dict(
        technique="runtime exception-class monitor + message-method monitor + logical step budget (sys.monitoring PY_START|PY_RESUME) over corpus mutants, short strings and type-confused data",
        text="Exploration: every execution of from_string/render/render_async over ~3.5e5 (quick) / ~1e7 (thorough) hostile inputs is watched by an exception-class monitor, the three message methods are invoked on every LiquidError, and a logical step counter enforces a budget polynomial in input size (plus a CPU-time probe for membership tests that walk a range in C code); sources that mention optional tags/filters are re-run under the Shopify-flavoured environment, dotted digits under shorthand_indexes. Held = no unlisted escape mechanism on what was executed.",
        note="Trusted: CPython, sys.monitoring event delivery, the corpus snapshot. C-level loops and regex back-tracking are outside the step counter (wall-clock watchdog only => inconclusive).",
        ref="4/C02",
    ),
}

CHECKS["C17"] = dict(
    technique="structural invariants asserted on the real lexer's token lists, on every token reachable from the parsed tree and on every raised error's token (tiling, span re-lex, path re-lex, nesting/order, position bounds, context() text agreement, line numbers of extracted translation messages), under the default configuration and shorthand_indexes=True",
    text="Exploration: ~9e4 (quick) sources — corpus templates, their mutants, comment/raw/unicode insertions at token boundaries and random fragment concatenations — are tokenized and parsed by the real code; the monitor asserts exact tiling, that each span re-lexes to the same token, nesting and order of expression tokens, and that every error position and context() line refer to the text at that offset; every path token's span must scan alone to the same path and carry no surrounding white space, every line statement of a liquid tag must scan alone to the same statement; an error's token must belong to the source being parsed, the template it names must be the template its token lies in, and an error that names a token kind / tag points at that token / tag; under the strict undefined types the position of an UndefinedError must not depend on which other missing name an earlier tolerated construct read; ~3e3 multi-line sources with uniquely named translatable literals check that each extracted message's line is the line of its literal (filters) or of its tag.",
    note="Trusted: the harness's own slicing/re-lexing logic. A position == len(source) counts as inside; -1 on EOI/error tokens is the 'no position' sentinel.",
    ref="4/C17",
)

CHECKS["C01"] = dict(
    technique="differential runtime oracle: real renders of grammar-generated programs compared with an independent reference interpreter over the abstract program model (docs-derived semantics), plus layout-invariance across emissions",
    text="Exploration: ~3.7e4 (quick) / ~1.5e6 (thorough) executions of the real parser+renderer on programs drawn from a typed grammar of the built-in language, each emitted in several layouts (whitespace, markers, quoting, bracket/dot paths, echo/liquid forms, comments) under 12 configurations and compared with a reference interpreter that never parses Liquid text. Cases outside the documented domain are detected and skipped (counted).",
    note="Trusted: the reference interpreter and its filter definitions (vf/ref), which encode docs/*.md and the compliance suite; undocumented corners are excluded from judgement (OutOfDomain), listed in DESIGN.md appendix A.",
    ref="4/C01, 3, appendix A",
)

CHECKS["C13"] = dict(
    technique="sys.addaudithook recorder of open/scandir/listdir during every loader call + canary files outside the roots + error-class monitor, over an exhaustively enumerated path grammar",
    text="Exploration, exhaustive for names of <= 4 grammar tokens: ~1e6 (quick) / ~1.2e7 (thorough) real loader calls (5 loader kinds, 10 configurations, Python and include/render/extends access, sync and async) are observed by an audit hook; every file opened must lie inside a configured root, no canary content may be returned, and absolute / parent-directory / outside-resolving names must raise TemplateNotFoundError.",
    note="Trusted: CPython audit events (os.stat probes raise none, so existence checks of outside paths are not observed); POSIX; symlinks planted inside a root are out of scope.",
    ref="4/C13",
)
CHECKS["C18"] = dict(
    technique="metamorphic runtime oracle on real renders: all/sampled assignments of whitespace-control markers x default_trim x blank-block suppression compared modulo whitespace with the marker-free render; verbatim text checked against the reference interpreter",
    text="Exploration: ~4e5 (quick) real renders; for each generated program every assignment of {none,-,~,+} to its marker positions (exhaustive when <= 6 positions, sampled beyond) under default_trim in {+,-,~} and suppression on/off must equal the marker-free output once str.isspace() characters are deleted, and (all assignments of exhaustive programs, a quarter of the sampled ones; ~2.8e5 in quick) must equal character for character the reference text in which each marker trims only the text adjacent to its own markup; a translate family with an exact-id catalog requires that markers never change which message is looked up; a hooks family requires an observing Environment.trim() override to be consulted for every text render and tablerow markup to survive blank-block suppression; a bounded-exhaustive family of blank/non-blank nests (with break/continue in blank loops) prints the state assigned, captured and counted inside suppressed blocks; a look-alike family keeps `{#`, `{`, `#}`, `}}`, `%}` that are not markup inside literal text.",
    note="Trusted: the emitter's marker placement and the shared generator profile (expressions never inspect captured text; captured variables are only printed).",
    ref="4/C18",
)

CHECKS["C03"] = dict(
    technique="sync/async differential oracle on real executions + deterministic coroutine scheduler enumerating interleavings of concurrent render_async calls at drop/loader await points",
    text="Exploration: ~2e3 (quick) sync/async pairs over corpus templates (partials moved into sub-directories), grammar-generated programs and inheritance/macro/translate fixtures with lazily awaited drops, 19 loader kinds (dict, gated, caching, file-system, package, choice, docs-style subclasses that override one or both source methods, route on load context or return matter) and 8 environment configurations (strict/falsy-strict undefined, auto-escape, small resource limits, Shopify tags), compared on output | (error class, template name, offset), plus get_template (with load-context keyword arguments and with environment/template globals over repeated loads) / analyze twins; ~3e4 explored schedules of 2-3 concurrent renders sharing one Template (exhaustive when <= 2000 interleavings) each compared with the solo result.",
    note="Trusted: the hand-driven scheduler (liquid2 awaits only harness-supplied awaitables with dict loaders); file-system loaders run under asyncio with uncontrolled executor interleavings.",
    ref="4/C03, 2.4",
)

CHECKS["C04"] = dict(
    technique="sentinel taint oracle on real auto-escaped renders (tainted data built from Z<Q/Z>Q/Z&Q/Z'Q/Z\"Q blocks, literals free of significant characters) with counterfactual re-render for '&', filters wrapped to name the first one returning Markup for tainted input",
    text="Exploration: ~4e4 (quick) / ~1e6 (thorough) real renders under auto_escape=True of random statements around chains of 1-5 filters (all registered filters, data in every argument position) through outputs, captures, partials, macros, loops, template strings, ternaries, translate, block.super, plus a systematic filter x pre-state x sink sweep and date-cache sequences; any raw < > ' \" (after removing exact engine markups) or data '&' confirmed by the counterfactual is a violation.",
    note="Trusted: markupsafe; the generator's literal alphabet assertion. Filters that cut text are not applied after newline_to_br (a mangled <br /> is indistinguishable from data).",
    ref="4/C04",
)
CHECKS["C05"] = dict(
    technique="attribute-access monitor (__getattribute__ spies on instances and metaclasses checked against a cited allow-list) + canary scan of output and of every wrapped filter's arguments/results + hidden-name relation",
    text="Exploration: ~1.4e5 (quick) / 3e6 (thorough) real renders of (object shape x lookup site x attribute NAME x sync/async x auto_escape): every attribute name read on a context object by engine code is logged and must be in the documented-protocol allow-list; canary values held only in Python attributes/properties/method results/class names must never reach the output or a filter.",
    note="Trusted: the committed allow-list (each entry cites docs/engine); implicit special-method lookups bypass __getattribute__ by design; exception messages are not scanned.",
    ref="4/C05",
)
CHECKS["C19"] = dict(
    technique="law checkers (reference definitions, inverse/idempotence/permutation/partition relations, string-key vs lambda agreement, input immutability) evaluated on real filter executions through templates and through the registry",
    text="Exploration: ~1e6 (quick) / 3e7 (thorough) law evaluations over 61 filters (>= 2.8e3 each) on generated argument tuples of the documented types (unicode strings, ints of any magnitude, finite floats, numeric strings, arrays of scalars and hashes with duplicates, missing keys, mixed key types); every law cites filter_reference.md or a compliance case.",
    note="Trusted: the law definitions (vf/c19_*); documented silent zones (half-way rounding, length == limit in truncate*, 1/true/1.0 mixtures) are excluded from the generated domain.",
    ref="4/C19",
)

CHECKS["C10"] = dict(
    technique="mutation-logging containers (FrozenList/FrozenDict) + deep structural snapshot/compare of every caller-supplied layer around real renders (also failed ones); exhaustive enumeration of namespace-layer subsets for lookup precedence",
    text="Exploration with an exhaustive sub-family: ~6.6e4 (quick) real renders apply every registered filter (23 argument forms) and 60 tag/aliasing forms to every container reachable from four data layers (env globals, template globals, loader matter, render args); any logged mutating call or deep difference after the render is a violation. Lookup precedence is enumerated exhaustively: all 128 subsets of the layers for names n, now, today at 13 lookup sites in root/include/render/macro/block contexts.",
    note="Trusted: the mutation log covers list/dict methods (C-level bypasses are caught by the deep diff); JSON-like caller data only.",
    ref="4/C10",
)

CHECKS["C09"] = dict(
    technique="history-vs-fresh oracle on recorded operation histories over shared Environment/Template/loader objects, with fault injection at the k-th data access / loader call, a harness-controlled clock, and the deterministic coroutine scheduler for concurrent renders",
    text="Exploration: ~1.7e4 (quick) steps of ~4.7e3 histories (render, render_async, analyze, from_string, get_template, liquid2.render/parse, configure-environment, faulted renders, failing loads) on two long-lived environments (one with the strict undefined type) are each compared with the same call on freshly built objects under the same clock reading; the clock advances between steps; every fault position of the fault-free run is swept; ~2e4 interleavings of concurrent renders of one shared Template are compared with solo results.",
    note="Trusted: the clock shim (the only two modules reading the wall clock are patched), the fresh-twin construction (configuration actions are inputs). Caching-loader content staleness is C14's subject.",
    ref="4/C09, 2.4, 2.5",
)
CHECKS["C16"] = dict(
    technique="three-policy differential with counting Undefined subclasses that log creation and every touch, plus a lookup hook (RenderContext.get/get_async) giving an independent exists/missing verdict",
    text="Exploration: ~3.3e4 (quick) / 1.1e6 (thorough) policy triples (Undefined, StrictUndefined, FalsyStrictUndefined) over corpus cases and 243 statement forms x deletion subsets of the referenced variables/properties (exhaustive up to 4/6 candidates): default never raises UndefinedError; a successful strict/falsy-strict render equals the default output; strict raises only after an undefined object was created and touched; complete data never raises.",
    note="Trusted: the plain-data resolver that decides whether a looked-up path exists (2% undecided, skipped). A policy that silently consumes an undefined without touching it and prints what the default prints is invisible.",
    ref="4/C16",
)

CHECKS["C15"] = dict(
    technique="recording translations catalog (logs every gettext/ngettext/pgettext/npgettext call of real renders) matched against extract_from_template output using unique message ids and the emitter's own line map",
    text="Exploration with a bounded-exhaustive one-site family: ~1.5e5 (quick) catalog lookups of real renders (translate/plural blocks and t/gettext/ngettext/pgettext/npgettext filters in every host construct, comments of all kinds, multi-line statements, counts {0,1,2,1.5,'3','abc',true}) are each attributed to their call site and must be matched by an extracted message of the same function family on the line the emitter placed it; comment attachment rules and no-raise on every parsing template (incl. empty) are checked.",
    note="Trusted: the generator's position map (lines are LF/CRLF based); lookups of computed strings are unobliged (only 'extraction does not fail').",
    ref="4/C15",
)

CHECKS["C12"] = dict(
    technique="round-trip oracle on real objects: str(template) must re-parse, behave identically on several data sets (output or error class) and reach a textual fixpoint within two iterations; pickle round trip likewise; mechanism keys from the first token-stream divergence",
    text="Exploration: ~1.4e4 (quick) / 1.4e5 (thorough) round trips and ~4.7e3 pickles over all valid corpus templates (root and partials), ~1.8e4 deterministic tiny units (every primitive form x expression site, filter-argument shapes, Boolean trees, every whitespace-control combination under three default_trim settings, tag options) and seeded random compositions over the built-in and Shopify tag sets; 57 node/expression classes serialised.",
    note="Trusted: the token-stream normalisation used for keys (spellings str() may change: quote style, optional commas, number spelling). Behaviour is compared on 3-5 concrete data sets, sync rendering.",
    ref="4/C12",
)
CHECKS["C20"] = dict(
    technique="encode/decode oracle: an independent encoder produces every valid spelling of a target string / number, the real engine evaluates it at 103 literal sites and the decoded value is compared with the target (relational negative controls); json output decoded with json.loads",
    text="Exploration with bounded-exhaustive sub-spaces: ~9.5e5 (quick) / 1.45e7 (thorough) evaluations: all spellings of U+0008..U+00FF at every site, BMP sweep, all surrogate-block boundaries, all 1464 strings of length <= 3 over the adversarial alphabet, random strings up to 8 code points, single/double quotes, 72 string sites and 24 number sites (ints to 10**40, e/E/e+ exponents, float spellings), 7 json variants incl. auto-escape.",
    note="Trusted: the encoder (it only emits spellings the documented grammar allows; rejected spellings are counted, not judged). Floats are judged against the correctly rounded double.",
    ref="4/C20",
)

CHECKS["C08"] = dict(
    technique="reference-model oracle (fold over an abstract chain description) against real renders in four modes (sync/async x plain/caching dict loader), bounded-exhaustive enumeration of chains plus structural-defect injection and cyclic graphs under a logical step budget",
    text="Exploration with an exhaustive family: all 40 494 chains of depth <= 3 over 2 block names where each template independently omits/defines/defines+super/defines required/nests each block (thorough: all depth-4 chains up to renaming, 6.7e5), plus control-flow-wrapped blocks, 11 structural defects injected at every chain position, all extends graphs on <= 4 templates from every entry (cycles must end in TemplateInheritanceError within 250 000 steps), chains entered through include/render, and seeded deeper chains; ~2.5e5 real renders in quick.",
    note="Trusted: the reference model (vf/c08_inherit.py). Blocks inside merely included templates (no extends) are not judged: the statement does not say whether they participate in the including chain (counted as dont_care_standalone_include_blocks).",
    ref="4/C08",
)

CHECKS["C11"] = dict(
    technique="runtime-vs-static oracle: lookups (RenderContext.get/get_async/resolve), applied filters, rendered tags and names reaching an instrumented global mapping are recorded on real renders and must each be covered by analyze() at the same template/span; every reported span is cut out of the source and re-lexed; analyze_async and the 16 helper methods compared with analyze()",
    text="Exploration: ~2.9e5 (quick) / 1e7 (thorough) runtime facts from ~1.2e3 generated cases (purpose-built generator with its own position map + the shared typed grammar; partials in sub-directories, extends chains, lambdas, macros, translate, tablerow, liquid tags, comments before markup) rendered with 6 data sets each so branches execute; ~1.7e5 spans re-lexed and compared with the generator's position map.",
    note="Trusted: the harness's template-identification by token.source; names bound anywhere in the template set are excluded from the globals clause (conservative reading), so scope-leak bugs are out of reach here (C07 covers them).",
    ref="4/C11",
)
CHECKS["C14"] = dict(
    technique="recorded histories of load-and-render / modify / delete / fail steps on real caching loaders checked against an LRU reference model fed by the uncached twin's answers; exhaustive enumeration of short histories, seeded long histories, enumerated interleavings of concurrent async callers, LRUCache differential and a thread stress at quiescent points",
    text="Exploration with exhaustive families: 9.9e5 canonical histories of length <= 3 (<= 4 uniform-mode) over 5 caching loader families x capacity {1,2,3} x auto_reload {on,off} (thorough: 1.8e7, length <= 4 / 5), 4.5e4 deeper sync histories that make eviction order observable, 4.8e3 random histories of length <= 40 with full twin renders, all 1e4 interleavings of 204 concurrent-caller scenarios; 3.5e6 steps compared in quick.",
    note="Trusted: the reference model (vf/c14_lru.py, imports nothing from liquid2); file mtimes set explicitly and strictly increasing; file-system async interleavings not controlled.",
    ref="4/C14",
)

CHECKS["C07"] = dict(
    technique="non-interference oracle on real renders (vary only the caller's locals / only the partial's assignments and compare delimited regions) + frame-condition invariant asserted at hooks on Node.render / RenderContext.extend / loop (scope chain, loop stack, template, disabled tags restored on normal and exceptional exit) with fault injection at every k-th data access",
    text="Exploration: ~2e3 caller x partial/macro pairs over a shared name pool rendered four ways (O1 caller->partial, O2 partial->caller), every include-refusal path of length <= 3 (O3), 600 binder nests with probes before/after every construct incl. break/continue (O4), ~3e6 node exits of which ~1e5 exceptional and 1e4 fault injections with harness-owned contexts checked after return or raise (O5), render-for item-order independence (O6); sync and async.",
    note="Trusted: the harness's region delimiters and the identity-based scope-chain snapshot; faults are injected at data __getitem__/__str__/__eq__ only.",
    ref="4/C07",
)

CHECKS["C06"] = dict(
    technique="independent resource accounting at hooks on the real engine (bytes accepted by every LimitedStringIO, loop-body executions per chain of loop sites from a Node.render frame stack, sys.getsizeof sums over the live context chain, copy/extend depth) compared online with the configured limit, around boundary limit values measured from an unrestricted render; cyclic template graphs run unwrapped under a step budget and the default recursion limit",
    text="Exploration: ~4e4 (quick) / ~7.5e5 (thorough) real renders of ~1.3e3 / ~2.7e4 generated programs (loop nests across render-for, include-for, tablerow, macros, blocks with block.super, captures, blank blocks, CR/CRLF/multi-byte text); each program's unrestricted consumption is measured and every limit is then set to consumption-1, consumption, consumption+1, capture peak +-1, 0 and random values: success must reproduce the unrestricted output within the limit, a limit below consumption must raise the matching error, and no hook may observe consumption above the limit before the error. 520 (quick) cyclic graphs of <= 4 templates over 17 edge kinds must end in ContextDepthError/TemplateInheritanceError; acyclic chains are scanned over all depth limits.",
    note="Trusted: the monitor's own accounting (vf/c06_mon.py); 'must succeed' for loops is only demanded when the limit >= product of lengths and no break is present (the engine's up-front count is conservative by design); capture buffers are checked at the engine's one-level carry; RecursionError is judged at context_depth_limit <= 31.",
    ref="4/C06",
)

NOT_YET = {}

def main():
    ids = [json.loads(l)["id"] for l in open(os.path.join(HERE, "properties.jsonl"))]
    checks = []
    for pid in ids:
        c = CHECKS.get(pid)
        if not c:
            continue
        checks.append({
            "property_id": pid,
            "quick_cmd": f"{PY} {pid} --tier quick",
            "thorough_cmd": f"{PY} {pid} --tier thorough",
            "evidence_file": f"evidence/{pid}.json",
            "replay_cmd_template": f"{PY} {pid} --replay {{path}}",
            "engine": "vf",
            "level_claimed": {"category": c.get("category", "exploration"), "text": c["text"], "design_ref": f"DESIGN.md section {c['ref']}"},
            "level_note": c["note"],
            "technique": c["technique"],
        })
    na = [{"property_id": pid, "reason": NOT_YET.get(pid, "check not built yet in this session (runtime monitoring applies; see DESIGN.md section 4); not claimed until its monitor is calibrated on the unchanged tree")} for pid in ids if pid not in CHECKS]
    m = {
        "version": 1,
        "setup_cmd": "mkdir -p evidence replay && /venv/bin/python -B -c \"import sys; sys.path.insert(0,'/repo'); import liquid2, vf.run\"",
        "hooks": {
            "guard": "LIQUID2_VERIF",
            "enable": "no source hooks are needed: monitors are attached from the harness by wrapping methods of the classes imported from /repo's working tree (editable install; workers also put /repo first on sys.path). LIQUID2_VERIF=1 is exported by the harness but nothing in /repo reads it.",
            "baseline_off_cmd": "cd /repo && /venv/bin/python -m pytest -ra -q -p no:cacheprovider --timeout=900 --continue-on-collection-errors",
            "source_commits": [],
            "add_only": True,
        },
        "engines": [
            {"name": "vf", "path": "vf/", "serves_properties": [c["property_id"] for c in checks],
             "kind_free_text": "runtime monitors (exception/step/trace/lookup/audit/clock hooks attached to the imported repo classes) driven by generated, mutated and enumerated workloads; oracles are reference models, metamorphic relations and invariants evaluated on the observed executions"},
        ],
        "checks": checks,
        "not_applicable": na,
        "notes": "Known findings: known_findings.json (status=known suppresses by mechanism key; status=fixed documents repaired defects and suppresses nothing). Exit 2 + INCONCLUSIVE line = a shard crashed/timed out or a deciding monitor saw fewer events than its floor.",
    }
    with open(os.path.join(HERE, "MANIFEST.json"), "w") as f:
        json.dump(m, f, indent=1)
        f.write("\n")

if __name__ == "__main__":
    main()
